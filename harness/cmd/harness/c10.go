package main

// C10 — field expressions select exactly the documented fields.
// Implementation: src/tokenizer.go (Tokenize, Transform, ParseRange, ...) and the nth handling of
// src/pattern.go through verif hooks, plus the fzf process (--nth / --with-nth / --accept-nth).
// Spec (coq/spec/FieldSpec.v, ops 1010..1016) is evaluated on the implementation's outputs (kind "spec");
// the model (coq/model/TokenModel.v, ops 1001..1009) is compared with the implementation (kind "corr").

import (
	"encoding/json"
	"fmt"
	"os"
	"regexp"
	"sort"
	"strconv"
	"strings"
	"unicode"
	"unicode/utf8"

	fzf "github.com/junegunn/fzf/src"
	"github.com/junegunn/fzf/src/algo"
	"github.com/junegunn/fzf/src/util"
)

// delimiter of a case: K 0 awk | 1 literal S | 2 regexp S | 3 the --delimiter option value S (fzf decides)
type c10Delim struct {
	K int    `json:"k"`
	S string `json:"s"`
}

// field index expression: T 0 -> N (A) | 1 -> [A]..[B]
type c10Expr struct {
	T int  `json:"t"`
	A *int `json:"a,omitempty"`
	B *int `json:"b,omitempty"`
}

type c10Case struct {
	Kind    string    `json:"kind"` // tok | range | sel | nth | proc | strip | tmpl | ph
	Line    string    `json:"line,omitempty"`
	Delim   c10Delim  `json:"delim"`
	Exprs   []c10Expr `json:"exprs,omitempty"`
	Str     string    `json:"str,omitempty"`   // range: raw expression text
	Query   string    `json:"query,omitempty"` // nth / proc
	Fuzzy   bool      `json:"fuzzy,omitempty"`
	Back    bool      `json:"back,omitempty"`  // match backward (--tiebreak=end)
	Lines   []string  `json:"lines,omitempty"` // proc
	Mode    string    `json:"mode,omitempty"`  // proc: nth | with-nth | accept-nth ; tmpl: with-nth | accept-nth
	Parts   []c10Part `json:"parts,omitempty"` // tmpl / proc: template of --with-nth / --accept-nth (empty: plain list Exprs)
	Index   int       `json:"index,omitempty"` // tmpl: ordinal of the line ({n})
	Flags   string    `json:"flags,omitempty"` // ph: placeholder flags ("r", "sr")
}

func (e c10Expr) String() string {
	if e.T == 0 {
		return strconv.Itoa(*e.A)
	}
	s := ""
	if e.A != nil {
		s += strconv.Itoa(*e.A)
	}
	s += ".."
	if e.B != nil {
		s += strconv.Itoa(*e.B)
	}
	return s
}
func (e c10Expr) Val() Val {
	opt := func(p *int) Val {
		if p == nil {
			return L()
		}
		return L(I(*p))
	}
	if e.T == 0 {
		return L(I(0), I(*e.A))
	}
	return L(I(1), opt(e.A), opt(e.B))
}

// documented syntax: non-zero bounds; fzf additionally refuses negative..positive
func (e c10Expr) documented() bool {
	if e.T == 0 {
		return e.A != nil && *e.A != 0
	}
	if e.A != nil && *e.A == 0 || e.B != nil && *e.B == 0 {
		return false
	}
	return true
}
func (e c10Expr) negpos() bool { return e.T == 1 && e.A != nil && e.B != nil && *e.A < 0 && *e.B > 0 }

func c10ExprList(es []c10Expr) string {
	ss := []string{}
	for _, e := range es {
		ss = append(ss, e.String())
	}
	return strings.Join(ss, ",")
}

type c10D struct {
	d    fzf.Delimiter
	kind int // 0 awk 1 literal 2 regex
	sep  string
	re   *regexp.Regexp
}

func c10MakeDelim(cd c10Delim) (c10D, error) {
	switch cd.K {
	case 0:
		return c10D{d: fzf.VerifDelimiterAwk()}, nil
	case 1:
		return c10D{d: fzf.VerifDelimiterStr(cd.S), kind: 1, sep: cd.S}, nil
	case 2:
		re, err := regexp.Compile(cd.S)
		if err != nil {
			return c10D{}, err
		}
		return c10D{d: fzf.VerifDelimiterRegex(re), kind: 2, re: re}, nil
	default:
		d := fzf.VerifDelimiterOption(cd.S)
		re, s := fzf.VerifDelimiterParts(d)
		if re != nil {
			return c10D{d: d, kind: 2, re: re}, nil
		}
		if s != nil {
			return c10D{d: d, kind: 1, sep: *s}, nil
		}
		return c10D{d: d}, nil
	}
}

// rune offsets of the regexp occurrences in s (Go's engine reports byte offsets)
func c10Locs(re *regexp.Regexp, s string) Val {
	out := []Val{}
	for _, loc := range re.FindAllStringIndex(s, -1) {
		out = append(out, L(I(utf8.RuneCountInString(s[:loc[0]])), I(utf8.RuneCountInString(s[:loc[1]]))))
	}
	return L(out...)
}

// the delimiter as the model sees it; for a regexp the occurrence table for the given texts
func (d c10D) Val(texts ...string) Val {
	switch d.kind {
	case 0:
		return L(I(0))
	case 1:
		return L(I(1), Runes([]rune(d.sep)))
	}
	seen := map[string]bool{}
	tbl := []Val{}
	for _, t := range texts {
		if !seen[t] {
			seen[t] = true
			tbl = append(tbl, L(Runes([]rune(t)), c10Locs(d.re, t)))
		}
	}
	return L(I(2), L(tbl...))
}

func c10Toks(ts []fzf.VerifToken) Val {
	out := make([]Val, len(ts))
	for i, t := range ts {
		out[i] = L(Runes(t.Runes), I(t.PrefixLength))
	}
	return L(out...)
}
func c10Texts(ts []fzf.VerifToken) (Val, Val) {
	texts := make([]Val, len(ts))
	starts := make([]Val, len(ts))
	for i, t := range ts {
		texts[i] = Runes(t.Runes)
		starts[i] = I(t.PrefixLength)
	}
	return L(texts...), L(starts...)
}

func c10Guard(f func()) (panicked string) {
	defer func() {
		if r := recover(); r != nil {
			panicked = fmt.Sprint(r)
		}
	}()
	f()
	return ""
}

// spec fields of a line: (lead, fields) by the documented rules, independent of the implementation
func c10SpecFields(c *Ctx, line string, d c10D) (lead Val, fields Val, ok bool) {
	lineR := Runes([]rune(line))
	switch d.kind {
	case 0:
		r := c.Model.Call(1011, lineR)
		return r.L[0], r.L[1], true
	case 1:
		return L(), c.Model.Call(1012, L(Runes([]rune(d.sep)), lineR)), true
	default:
		r := c.Model.Call(1013, L(c10Locs(d.re, line), lineR))
		return L(), r.L[1], r.L[0].I == 1
	}
}

// the same case reduced to the one expression that fails (smaller replay)
func c10One(cs c10Case, e c10Expr) c10Case { cs.Exprs = []c10Expr{e}; return cs }

func c10Key(cs c10Case) string { b, _ := json.Marshal(cs); return string(b) }

// at most 4 reports per name: the report keeps 50 disagreements in all, and a broken correspondence at hook
// level must not crowd out a spec violation found later at process level
var c10Reported = map[string]int{}

func c10Bad(c *Ctx, kind, name string, cs c10Case, impl, expect interface{}) {
	c10Reported[name]++
	if c10Reported[name] > 4 {
		c.Rep.Count("unreported:" + name)
		return
	}
	c.Rep.Disagreement(Disagreement{Kind: kind, Name: name, Input: cs, Impl: impl, Expect: expect})
}

// ---- Tokenize -------------------------------------------------------------------------------
func c10Tok(c *Ctx, cs c10Case) {
	d, err := c10MakeDelim(cs.Delim)
	if err != nil {
		return
	}
	var toks []fzf.VerifToken
	if p := c10Guard(func() { toks = fzf.VerifTokenViews(fzf.Tokenize(cs.Line, d.d)) }); p != "" {
		c10Bad(c, "spec", "total", cs, "panic: "+p, "no panic")
		return
	}
	c.Rep.ImplTraces++
	lineR := Runes([]rune(cs.Line))
	lead, fields, wf := c10SpecFields(c, cs.Line, d)
	if !wf {
		c10Bad(c, "corr", "corr:C10.regexp_locations_wf", cs, c10Locs(d.re, cs.Line).String(), "ordered, in-range locations")
	}
	texts, starts := c10Texts(toks)
	c.Rep.SpecChecks += 2
	if c.Model.Call(1010, L(lineR, lead, texts, starts)).I != 1 {
		c10Bad(c, "spec", "tokens_partition", cs, c10Toks(toks).String(), "lead ++ concat fields = line, prefix_k = length before field k")
	}
	if !texts.Equal(fields) {
		c10Bad(c, "spec", "fields_as_documented", cs, texts.String(), fields.String())
	}
	mv := c.Model.Call(1001, L(lineR, d.Val(cs.Line)))
	if !mv.Equal(c10Toks(toks)) {
		c10Bad(c, "corr", "corr:C10.tokenize", cs, c10Toks(toks).String(), mv.String())
	}
	c.Rep.Eval(c10Key(cs), len(toks) >= 2)
	c.Rep.Count(fmt.Sprintf("tok:delim=%d", d.kind))
	c.Rep.Count(fmt.Sprintf("tok:fields=%d", min(len(toks), 8)))
	if len(cs.Line) != len([]rune(cs.Line)) {
		c.Rep.Count("tok:multibyte")
	}
}

// ---- ParseRange / RangesToString on arbitrary text -----------------------------------------------
func c10Range(c *Ctx, cs c10Case) {
	var r fzf.Range
	var ok bool
	s := cs.Str
	if p := c10Guard(func() { r, ok = fzf.ParseRange(&s) }); p != "" {
		c10Bad(c, "spec", "total", cs, "panic: "+p, "no panic")
		return
	}
	c.Rep.ImplTraces++
	got := L()
	if ok {
		b, e := fzf.VerifRangeParts(r)
		got = L(L(Bytes(strconv.Itoa(b)), Bytes(strconv.Itoa(e))))
	}
	mv := c.Model.Call(1002, Bytes(cs.Str))
	if !mv.Equal(got) {
		c10Bad(c, "corr", "corr:C10.parse_range", cs, got.String(), mv.String())
	}
	if b, e := fzf.VerifRangeParts(r); ok && b > -(1<<60) && b < 1<<60 && e > -(1<<60) && e < 1<<60 {
		str := fzf.RangesToString([]fzf.Range{r, r})
		ms := c.Model.Call(1005, L(L(I(b), I(e)), L(I(b), I(e))))
		if ms.Str() != str {
			c10Bad(c, "corr", "corr:C10.ranges_to_string", cs, str, ms.Str())
		}
		c.Rep.Count("range:accepted")
	} else if ok {
		c.Rep.Count("range:accepted(int64 extreme)")
	} else {
		c.Rep.Count("range:rejected")
	}
	c.Rep.Eval(c10Key(cs), ok)
}

// ---- expressions -> fields: ParseRange + Transform against select_fields -------------------------
func c10Sel(c *Ctx, cs c10Case) {
	d, err := c10MakeDelim(cs.Delim)
	if err != nil {
		return
	}
	var tokens []fzf.Token
	var toks []fzf.VerifToken
	if p := c10Guard(func() { tokens = fzf.Tokenize(cs.Line, d.d); toks = fzf.VerifTokenViews(tokens) }); p != "" {
		c10Bad(c, "spec", "total", cs, "panic: "+p, "no panic")
		return
	}
	lead, fields, _ := c10SpecFields(c, cs.Line, d)
	ranges := []fzf.Range{}
	rvals := []Val{}
	exprs := []c10Expr{}
	for _, e := range cs.Exprs {
		s := e.String()
		if ps := c.Model.Call(1016, e.Val()).Str(); ps != s {
			c10Bad(c, "corr", "corr:C10.print_fexpr(harness)", cs, s, ps)
		}
		var r fzf.Range
		var ok bool
		if p := c10Guard(func() { r, ok = fzf.ParseRange(&s) }); p != "" {
			c10Bad(c, "spec", "total", cs, "panic: "+p, "no panic")
			return
		}
		got := L()
		if ok {
			b, en := fzf.VerifRangeParts(r)
			got = L(L(Bytes(strconv.Itoa(b)), Bytes(strconv.Itoa(en))))
		}
		if mv := c.Model.Call(1002, Bytes(s)); !mv.Equal(got) {
			c10Bad(c, "corr", "corr:C10.parse_range", cs, got.String(), mv.String())
		}
		c.Rep.SpecChecks++
		if e.documented() && !e.negpos() && !ok {
			c10Bad(c, "spec", "documented_expression_accepted", cs, s+" rejected", "accepted")
		}
		if !e.documented() && ok {
			c10Bad(c, "spec", "zero_bound_rejected", cs, s+" accepted", "rejected")
		}
		if ok {
			b, en := fzf.VerifRangeParts(r)
			ranges = append(ranges, r)
			rvals = append(rvals, L(I(b), I(en)))
			exprs = append(exprs, e)
		}
	}
	var out []fzf.VerifToken
	if p := c10Guard(func() { out = fzf.VerifTokenViews(fzf.Transform(tokens, ranges)) }); p != "" {
		c10Bad(c, "spec", "total", cs, "panic: "+p, "no panic")
		return
	}
	c.Rep.ImplTraces++
	if mv := c.Model.Call(1003, L(c10Toks(toks), L(rvals...))); !mv.Equal(c10Toks(out)) {
		c10Bad(c, "corr", "corr:C10.transform", cs, c10Toks(out).String(), mv.String())
	}
	nonEmpty := 0
	for i, e := range exprs {
		sp := c.Model.Call(1014, L(e.Val(), fields, I(len(lead.L))))
		c.Rep.SpecChecks++
		if !sp.L[0].Equal(Runes(out[i].Runes)) {
			c10Bad(c, "spec", "transform_selects", c10One(cs, e), fmt.Sprintf("%s -> %q", e, string(out[i].Runes)), fmt.Sprintf("%q", sp.L[0].RuneStr()))
		} else if sp.L[2].I > 0 {
			nonEmpty++
			if int(sp.L[1].I) != out[i].PrefixLength {
				c10Bad(c, "spec", "transform_selects(prefixLength)", c10One(cs, e), fmt.Sprintf("%s -> prefixLength %d", e, out[i].PrefixLength), sp.L[1].I)
			}
		}
	}
	c.Rep.Eval(c10Key(cs), nonEmpty > 0)
	c.Rep.Count(fmt.Sprintf("sel:delim=%d", d.kind))
	c.Rep.Count(fmt.Sprintf("sel:fields=%d", min(len(toks), 8)))
	c.Rep.CountN("sel:expressions", len(cs.Exprs))
	c.Rep.CountN("sel:nonempty_selections", nonEmpty)
}

// ---- --nth: transformInput, iter, positions ---------------------------------------------------------
func c10Nth(c *Ctx, cs c10Case) {
	d, err := c10MakeDelim(cs.Delim)
	if err != nil {
		return
	}
	nth := c10ExprList(cs.Exprs)
	ranges, err := fzf.VerifSplitNth(nth)
	if err != nil {
		c.Rep.Count("nth:rejected")
		return
	}
	rvals := []Val{}
	for _, r := range ranges {
		b, e := fzf.VerifRangeParts(r)
		rvals = append(rvals, L(I(b), I(e)))
	}
	var pre, ti []fzf.VerifToken
	var matched bool
	var offs [][2]int
	var pos []int
	forward := !cs.Back
	if p := c10Guard(func() {
		pre = fzf.VerifTokenViews(fzf.Transform(fzf.Tokenize(cs.Line, d.d), ranges))
		ti = fzf.VerifTokenViews(fzf.VerifTransformInput(cs.Line, ranges, d.d))
		matched, offs, pos = fzf.VerifNthMatch(cs.Line, cs.Query, ranges, d.d, cs.Fuzzy, false, fzf.CaseRespect, forward)
	}); p != "" {
		c10Bad(c, "spec", "total", cs, "panic: "+p, "no panic")
		return
	}
	c.Rep.ImplTraces++
	strs := []string{cs.Line}
	for _, t := range pre {
		strs = append(strs, string(t.Runes))
	}
	lineR := []rune(cs.Line)
	lead, fields, _ := c10SpecFields(c, cs.Line, d)
	strs = append(strs, c10Sels(c, cs.Exprs, fields, lead)...)
	dv := d.Val(strs...)
	if mv := c.Model.Call(1004, L(Runes(lineR), L(rvals...), dv)); !mv.Equal(c10Toks(ti)) {
		c10Bad(c, "corr", "corr:C10.transform_input", cs, c10Toks(ti).String(), mv.String())
	}
	// spec on transformInput's own output: the searched texts ARE the documented selections (the last one
	// without ONE trailing delimiter / trailing white space when a --delimiter is given), each at the offset
	// of its first selected field
	search := c10SearchTexts(c, d, cs.Exprs, fields, lead)
	c.Rep.SpecChecks++
	if len(ti) != len(search) {
		c10Bad(c, "spec", "nth_searches_selected_fields", cs, c10Toks(ti).String(), fmt.Sprintf("%q", search))
	} else {
		for i, ex := range cs.Exprs {
			if string(ti[i].Runes) != search[i] {
				c10Bad(c, "spec", "nth_searches_selected_fields", cs, fmt.Sprintf("%s: searched text %q", ex, string(ti[i].Runes)), fmt.Sprintf("%q", search[i]))
				break
			}
			if sp := c.Model.Call(1014, L(ex.Val(), fields, I(len(lead.L)))); len(ti[i].Runes) > 0 && int(sp.L[1].I) != ti[i].PrefixLength {
				c10Bad(c, "spec", "nth_searches_selected_fields(prefixLength)", cs, fmt.Sprintf("%s: prefixLength %d", ex, ti[i].PrefixLength), sp.L[1].I)
				break
			}
		}
	}
	// completeness: a term that occurs in a searched text (exact: as a substring, fuzzy: as a subsequence;
	// case-sensitive, no normalisation) is found
	if cs.Query != "" {
		expect := false
		for _, s := range search {
			if cs.Fuzzy && c10Subseq([]rune(cs.Query), []rune(s)) || !cs.Fuzzy && strings.Contains(s, cs.Query) {
				expect = true
			}
		}
		c.Rep.SpecChecks++
		if expect && !matched {
			c10Bad(c, "spec", "nth_complete", cs, "no match", fmt.Sprintf("a match: the query occurs in one of the searched texts %q", search))
		}
	}
	// the matcher's verdict on each token text is an input of the model (algo.* is C02's subject)
	tbl := []Val{}
	slab := util.MakeSlab(100*1024, 2048)
	for _, t := range ti {
		chars := util.ToChars([]byte(string(t.Runes)))
		var res algo.Result
		var ps *[]int
		if cs.Fuzzy {
			res, ps = algo.FuzzyMatchV2(true, false, forward, &chars, []rune(cs.Query), true, slab)
		} else {
			res, ps = algo.ExactMatchNaive(true, false, forward, &chars, []rune(cs.Query), true, slab)
		}
		ent := L()
		if res.Start >= 0 {
			pv := L()
			if ps != nil {
				pv = Ints(*ps)
			}
			ent = L(I(res.Start), I(res.End), pv)
		}
		tbl = append(tbl, L(Runes(t.Runes), ent))
	}
	got := L()
	if matched {
		got = L(I(offs[0][0]), I(offs[0][1]), Ints(pos))
	}
	if mv := c.Model.Call(1008, L(Runes(lineR), L(rvals...), dv, L(tbl...))); !mv.Equal(got) {
		c10Bad(c, "corr", "corr:C10.nth_match", cs, got.String(), mv.String())
	}
	// spec on the implementation's answer: positions are positions of the FULL line, inside a selected field run
	if matched {
		s, e := offs[0][0], offs[0][1]
		q := []rune(cs.Query)
		c.Rep.SpecChecks += 2
		okPos := s >= 0 && s <= e && e <= len(lineR)
		if okPos && !cs.Fuzzy {
			okPos = string(lineR[s:e]) == cs.Query
		}
		if okPos && cs.Fuzzy {
			sp := append([]int{}, pos...)
			sort.Ints(sp)
			okPos = len(sp) == len(q)
			for i := 0; okPos && i < len(sp); i++ {
				okPos = sp[i] >= s && sp[i] < e && lineR[sp[i]] == q[i] && (i == 0 || sp[i] > sp[i-1])
			}
		}
		if !okPos {
			c10Bad(c, "spec", "nth_positions_refer_to_line", cs, fmt.Sprintf("offset [%d,%d) positions %v", s, e, pos), "characters of the line at these positions spell the query")
		}
		inside := false
		for _, ex := range cs.Exprs {
			if c.Model.Call(1015, L(ex.Val(), fields, I(len(lead.L)), I(s), I(e))).I == 1 {
				inside = true
			}
		}
		if !inside {
			c10Bad(c, "spec", "nth_confines", cs, fmt.Sprintf("offset [%d,%d)", s, e), "inside the text selected by one of "+nth)
		}
	}
	c.Rep.Eval(c10Key(cs), matched)
	c.Rep.Count(fmt.Sprintf("nth:delim=%d", d.kind))
	c.Rep.Count(fmt.Sprintf("nth:matched=%v", matched))
	if cs.Fuzzy {
		c.Rep.Count("nth:fuzzy")
	}
}

// ---- the fzf process -----------------------------------------------------------------------------------
func c10Proc(c *Ctx, cs c10Case) {
	if c.Fzf == "" {
		return
	}
	if _, err := os.Stat(c.Fzf); err != nil {
		return
	}
	d, err := c10MakeDelim(cs.Delim)
	if err != nil {
		return
	}
	if len(cs.Parts) > 0 && len(cs.Lines) > 0 {
		targs := []string{}
		if cs.Delim.K == 3 {
			targs = append(targs, "--delimiter", cs.Delim.S)
		}
		c10ProcTemplate(c, cs, d, targs)
		return
	}
	nth := c10ExprList(cs.Exprs)
	ranges, err := fzf.VerifSplitNth(nth)
	if err != nil {
		return
	}
	rvals := []Val{}
	for _, r := range ranges {
		b, e := fzf.VerifRangeParts(r)
		rvals = append(rvals, L(I(b), I(e)))
	}
	args := []string{}
	if cs.Delim.K == 3 {
		args = append(args, "--delimiter", cs.Delim.S)
	}
	stdin := strings.Join(cs.Lines, "\n") + "\n"
	switch cs.Mode {
	case "accept-nth":
		// one line, --select-1: prints acceptNth(line)
		line := cs.Lines[0]
		args = append(args, "--select-1", "--accept-nth", nth)
		out, errs, code := RunFzf(c, args, []byte(line+"\n"))
		c.Rep.ImplTraces++
		pre := fzf.VerifTokenViews(fzf.Transform(fzf.Tokenize(line, d.d), ranges))
		joined := ""
		for _, t := range pre {
			joined += string(t.Runes)
		}
		ld, fs, _ := c10SpecFields(c, line, d)
		mv := c.Model.Call(1007, L(Runes([]rune(line)), L(rvals...), d.Val(line, joined, c10FieldsText(c, cs.Exprs, fs, ld))))
		want := mv.RuneStr() + "\n"
		if code != 0 || out != want {
			c10Bad(c, "corr", "corr:C10.process_accept_nth", cs, fmt.Sprintf("exit %d stdout %q stderr %q", code, out, errs), want)
		}
		// spec: the printed text is the selected text of the expressions, minus a trailing delimiter / white space
		lead, fields, _ := c10SpecFields(c, line, d)
		sel := ""
		for _, ex := range cs.Exprs {
			sel += c.Model.Call(1014, L(ex.Val(), fields, I(len(lead.L)))).L[0].RuneStr()
		}
		c.Rep.SpecChecks++
		printed := strings.TrimSuffix(out, "\n")
		if code == 0 && !strings.HasPrefix(sel, printed) {
			c10Bad(c, "spec", "accept_nth_prints_selected_fields", cs, printed, "a prefix of "+sel)
		}
		if want := strings.TrimRightFunc(sel, unicode.IsSpace); code == 0 && d.kind == 0 && printed != want {
			c10Bad(c, "spec", "accept_nth_prints_selected_fields", cs, printed, want)
		}
		// exactly: the selected text without ONE trailing delimiter, then without trailing white space
		// ("The last delimiter is stripped from the output")
		c.Rep.SpecChecks++
		if exact := c10Out(c, d, sel); code == 0 && printed != exact {
			c10Bad(c, "spec", "accept_nth_prints_exactly_selected_fields(process)", cs, printed, exact)
		}
		c.Rep.Eval(c10Key(cs), printed != "")
		c.Rep.Count("proc:accept-nth")
		return
	case "with-nth":
		args = append(args, "--with-nth", nth)
	default:
		args = append(args, "--nth", nth)
	}
	args = append(args, "--filter", cs.Query, "--exact", "+i", "--no-sort", "--literal")
	out, errs, code := RunFzf(c, args, []byte(stdin))
	c.Rep.ImplTraces++
	got := []string{}
	if out != "" {
		got = strings.Split(strings.TrimSuffix(out, "\n"), "\n")
	}
	want := []string{}
	for _, line := range cs.Lines {
		hit := false
		if cs.Mode == "with-nth" {
			toks := fzf.VerifTokenViews(fzf.Tokenize(line, d.d))
			mv := c.Model.Call(1003, L(c10Toks(toks), L(rvals...)))
			joined := ""
			for _, t := range mv.L {
				if len(t.L) == 2 {
					joined += t.L[0].RuneStr()
				}
			}
			hit = strings.Contains(joined, cs.Query)
		} else if b0, e0 := fzf.VerifRangeParts(ranges[0]); len(ranges) == 1 && b0 == 0 && e0 == 0 {
			// options.go (postProcessOptions): a single --nth expression that is the whole range (.., 1.., ..-1) is
			// dropped, the whole line is searched as it is (model: nth_match with nth = [])
			hit = strings.Contains(line, cs.Query)
		} else {
			pre := fzf.VerifTokenViews(fzf.Transform(fzf.Tokenize(line, d.d), ranges))
			strs := []string{line}
			for _, t := range pre {
				strs = append(strs, string(t.Runes))
			}
			ld, fs, _ := c10SpecFields(c, line, d)
			strs = append(strs, c10Sels(c, cs.Exprs, fs, ld)...)
			mv := c.Model.Call(1004, L(Runes([]rune(line)), L(rvals...), d.Val(strs...)))
			for _, t := range mv.L {
				if len(t.L) == 2 && strings.Contains(t.L[0].RuneStr(), cs.Query) {
					hit = true
				}
			}
		}
		if hit {
			want = append(want, line)
		}
	}
	if (code != 0 && code != 1) || strings.Join(got, "\n") != strings.Join(want, "\n") {
		c10Bad(c, "corr", "corr:C10.process_"+cs.Mode, cs, fmt.Sprintf("exit %d stdout %q stderr %q", code, out, errs), want)
	}
	// spec: a printed line has the query inside the text selected by one of the expressions (soundness);
	// a line whose selected text holds the query away from any delimiter/blank is printed (completeness:
	// the generator keeps query letters disjoint from delimiter characters)
	inInput := map[string]bool{}
	for _, l := range cs.Lines {
		inInput[l] = true
	}
	gotSet := map[string]bool{}
	for _, l := range got {
		gotSet[l] = true
	}
	for _, line := range cs.Lines {
		lead, fields, _ := c10SpecFields(c, line, d)
		selHit := false
		for _, ex := range cs.Exprs {
			if strings.Contains(c.Model.Call(1014, L(ex.Val(), fields, I(len(lead.L)))).L[0].RuneStr(), cs.Query) {
				selHit = true
			}
		}
		if cs.Mode == "with-nth" {
			// matching is against the concatenation of the selected texts
			sel := ""
			for _, ex := range cs.Exprs {
				sel += c.Model.Call(1014, L(ex.Val(), fields, I(len(lead.L)))).L[0].RuneStr()
			}
			selHit = strings.Contains(sel, cs.Query)
		}
		c.Rep.SpecChecks++
		if gotSet[line] && !selHit {
			c10Bad(c, "spec", "nth_confines(process)", cs, "printed: "+line, "query occurs in no selected field")
		}
		if cs.Mode != "with-nth" {
			// what --nth searches: the selections, the last one without its trailing delimiter / white space
			// (so a query that holds delimiter characters is decided exactly)
			selHit = false
			for _, s := range c10SearchTexts(c, d, cs.Exprs, fields, lead) {
				if strings.Contains(s, cs.Query) {
					selHit = true
				}
			}
		}
		if !gotSet[line] && selHit && (code == 0 || code == 1) {
			c10Bad(c, "spec", "nth_complete(process)", cs, "not printed: "+line, "query occurs in a selected field")
		}
	}
	for _, l := range got {
		if !inInput[l] {
			c10Bad(c, "spec", "prints_original_line", cs, l, "one of the input lines")
		}
	}
	c.Rep.Eval(c10Key(cs), len(got) > 0 && len(got) < len(cs.Lines))
	c.Rep.Count("proc:" + cs.Mode)
}

func c10Check(c *Ctx, cs c10Case) {
	if os.Getenv("VERIF_C10_DUMP") == cs.Kind {
		fmt.Fprintln(os.Stderr, c10Key(cs))
	}
	switch cs.Kind {
	case "tok":
		c10Tok(c, cs)
	case "range":
		c10Range(c, cs)
	case "sel":
		c10Sel(c, cs)
	case "nth":
		c10Nth(c, cs)
	case "proc":
		c10Proc(c, cs)
	case "strip":
		c10Strip(c, cs)
	case "tmpl":
		c10Tmpl(c, cs)
	case "ph":
		c10Placeholder(c, cs)
	}
	if lim := map[string]int{"proc": 2}[cs.Kind] + 1; c10Sampled[cs.Kind] < min(lim, 2) && len(cs.Exprs) <= 4 {
		c10Sampled[cs.Kind]++
		c.Rep.Sample(cs)
	}
}

var c10Sampled = map[string]int{}

// ---- generators ---------------------------------------------------------------------------------------

var c10Words = []string{"a", "b", "ab", "abc", "xyz", "é", "中文", "😀", "x1", "q", "foo", "ba", " ", "z　", "A", "_"}

func c10GenDelim(r *RNG, proc bool) c10Delim {
	if proc {
		switch r.Intn(6) {
		case 0:
			return c10Delim{K: 0}
		case 1:
			return c10Delim{K: 3, S: Pick(r, []string{",", ";", "::", "\\t", " ", "é", "|", ".", "-"})}
		case 2:
			return c10Delim{K: 3, S: Pick(r, []string{",+", "[,;]", "\\s+", "[0-9]+", ", *", ":|;", "-*", "[é,]"})}
		case 3:
			return c10Delim{K: 3, S: Pick(r, c10LitDelims)} // multi-character plain strings
		default:
			return c10Delim{K: 3, S: c10GenRegexDelim(r)} // every shape of regular expression, pure literals included
		}
	}
	switch r.Intn(14) {
	case 10, 11:
		return c10Delim{K: 2, S: c10GenRegexDelim(r)}
	case 12:
		return c10Delim{K: 3, S: c10GenRegexDelim(r)}
	case 13:
		return c10Delim{K: 1, S: Pick(r, c10LitDelims)}
	}
	switch r.Intn(10) {
	case 0, 1, 2:
		return c10Delim{K: 0}
	case 3, 4, 5:
		return c10Delim{K: 1, S: Pick(r, []string{",", ";", "::", "\t", " ", "é", "中", "ab", ",,", "", ".", "aa"})}
	case 6, 7, 8:
		return c10Delim{K: 2, S: Pick(r, []string{",+", "[,;]", "\\s+", "[0-9]+", ", *", "x*", "^", "$", "a|b", ".", "é+", "\\b", ",|$", "(,)(;)?"})}
	default:
		return c10Delim{K: 3, S: Pick(r, []string{",", "\\t", "a.c", "[", "x*", "::", "|", "\\s"})}
	}
}

// strings that a regexp delimiter of the generators matches
var c10RegexSeps = map[string][]string{
	",+": {",", ",,", ",,,"}, "[,;]": {",", ";"}, "\\s+": {" ", "\t", "  ", " \t"}, "[0-9]+": {"1", "22", "307"},
	", *": {",", ", ", ",  "}, ":|;": {":", ";"}, "-*": {"-", "--"}, "[é,]": {"é", ","}, "x*": {"x", "xx"},
	"a|b": {"a", "b"}, ".": {",", "x"}, "é+": {"é", "éé"}, ",|$": {","}, "(,)(;)?": {",", ",;"}, "\\s": {" ", "\t"},
	"a.c": {"abc", "a,c"}, "\\b": {" ", ","}, "^": {","}, "$": {","},
}

// separators likely to be (or to contain) the delimiter of this case
func c10Seps(d c10Delim) []string {
	if d.K == 0 {
		return []string{" ", "\t", "  ", " \t ", " "}
	}
	base := []string{",", ";", "::", " ", "\t", ",,", ", ", ":", "-", "1", "22", "é", "中", "ab", "aa", ".", "|", "x"}
	if m, ok := c10RegexSeps[d.S]; ok && d.K >= 2 {
		for i := 0; i < 12; i++ {
			base = append(base, m...)
		}
	} else {
		s := strings.ReplaceAll(d.S, "\\t", "\t")
		if s != "" {
			for i := 0; i < 12; i++ {
				base = append(base, s)
			}
			base = append(base, s+s)
		}
	}
	return base
}

func c10GenLine(r *RNG, d c10Delim, nfields int) string {
	seps := c10Seps(d)
	var b strings.Builder
	if r.Chance(1, 4) {
		b.WriteString(Pick(r, seps))
	}
	if r.Chance(1, 8) {
		b.WriteString(" ")
	}
	for i := 0; i < nfields; i++ {
		if i > 0 {
			b.WriteString(Pick(r, seps))
			if r.Chance(1, 6) {
				b.WriteString(Pick(r, seps))
			}
		}
		n := r.Range(1, 2)
		if r.Chance(1, 10) {
			n = 0
		}
		for j := 0; j < n; j++ {
			b.WriteString(Pick(r, c10Words))
		}
		if d.K != 0 && r.Chance(1, 4) { // the field ends in characters that also occur in the delimiter
			b.WriteString(c10DelimPiece(r, seps))
		}
	}
	if r.Chance(1, 3) {
		b.WriteString(Pick(r, seps))
		if r.Chance(1, 4) {
			b.WriteString(Pick(r, seps))
		}
	}
	if r.Chance(1, 8) {
		b.WriteString(Pick(r, []string{" ", "\t", " ", "  "}))
	}
	s := b.String()
	if r.Chance(1, 40) { // not valid UTF-8: every bad byte is one U+FFFD character
		s += Pick(r, []string{"\xff", "\xe4\xb8", "\xc3"}) + Pick(r, seps) + "k"
	}
	return s
}

func c10Int(v int) *int { return &v }

func c10GenExpr(r *RNG, bound int) c10Expr {
	num := func() int {
		if r.Chance(1, 25) {
			return 0
		}
		v := r.Range(1, bound)
		if r.Bool() {
			v = -v
		}
		return v
	}
	switch r.Intn(6) {
	case 0, 1:
		return c10Expr{T: 0, A: c10Int(num())}
	case 2:
		return c10Expr{T: 1, A: c10Int(num()), B: c10Int(num())}
	case 3:
		return c10Expr{T: 1, A: c10Int(num())}
	case 4:
		return c10Expr{T: 1, B: c10Int(num())}
	default:
		if r.Chance(1, 3) {
			return c10Expr{T: 1}
		}
		a := num()
		return c10Expr{T: 1, A: c10Int(a), B: c10Int(a + r.Range(0, 2))}
	}
}

func c10AllExprs(lo, hi int) []c10Expr {
	out := []c10Expr{{T: 1}}
	for a := lo; a <= hi; a++ {
		out = append(out, c10Expr{T: 0, A: c10Int(a)}, c10Expr{T: 1, A: c10Int(a)}, c10Expr{T: 1, B: c10Int(a)})
		for b := lo; b <= hi; b++ {
			out = append(out, c10Expr{T: 1, A: c10Int(a), B: c10Int(b)})
		}
	}
	return out
}

func c10GenRangeText(r *RNG) string {
	if r.Chance(1, 2) {
		s := c10GenExpr(r, 9).String()
		switch r.Intn(6) {
		case 0:
			return s + Pick(r, []string{".", "..", "x", " ", "-", "+", ","})
		case 1:
			return Pick(r, []string{".", "+", "-", " ", "0", "00", "--"}) + s
		case 2:
			return strings.Replace(s, "..", Pick(r, []string{"...", ".", "....", ". .", "..+", "..-"}), 1)
		}
		return s
	}
	alpha := []string{".", "..", "-", "+", "0", "1", "2", "9", "10", "007", " ", "x", "9223372036854775807", "9223372036854775808", "-9223372036854775808", "-9223372036854775809", "_", "１"}
	n := r.Range(0, 4)
	s := ""
	for i := 0; i < n; i++ {
		s += Pick(r, alpha)
	}
	return s
}

// a run of word letters of the line that no delimiter of the process generator can contain
func c10GenProcQuery(r *RNG, line string) string {
	runs := []string{}
	cur := []rune{}
	for _, ch := range line + " " {
		if strings.ContainsRune("abcxyzqfoA中文_", ch) {
			cur = append(cur, ch)
		} else if len(cur) > 0 {
			runs = append(runs, string(cur))
			cur = nil
		}
	}
	if len(runs) == 0 {
		return "a"
	}
	w := []rune(runs[len(runs)-1-r.Intn(min(len(runs), 2))]) // biased to the end of the line
	i := r.Intn(len(w))
	return string(w[i:min(len(w), i+r.Range(1, 2))])
}

func c10GenQuery(r *RNG, line string, d c10Delim) string {
	// mostly a piece of the line made of word characters, sometimes absent from it
	letters := []rune{}
	for _, ch := range line {
		if strings.ContainsRune("abcxyzqfoAé中文😀_", ch) {
			letters = append(letters, ch)
		}
	}
	if len(letters) == 0 || r.Chance(1, 8) {
		return Pick(r, []string{"a", "zz", "ab", "é", "q"})
	}
	i := r.Intn(len(letters))
	n := 1
	if r.Chance(1, 3) && i+1 < len(letters) {
		n = 2
	}
	return string(letters[i : i+n])
}

func runC10(c *Ctx) {
	c.Rep.Rule = "hook level: Tokenize on lines with leading/trailing/consecutive delimiters, multi-byte and invalid UTF-8, three delimiter kinds (regexp locations from Go's engine); ParseRange on well-formed and malformed texts; every expression with bounds -6..6 x field counts 0..6 x three delimiter kinds (exhaustive) and random larger ones through ParseRange+Transform; transformInput + MatchItem with --nth (exact and fuzzy, forward/backward) ; StripLastDelimiter on any text, nthTransformer / acceptNth with plain lists and templates, {rN} / {srN} placeholders (output_text, render_template, placeholder_text evaluated on their outputs); regular-expression delimiters of every shape incl. pure literals, fields ending in delimiter characters; process level: fzf --filter with --nth / --with-nth (plain, template) and --select-1 --accept-nth (plain, template), queries that may hold delimiter characters. non-trivial = >=2 fields (tok), accepted (range), a non-empty selection (sel), a match (nth), some but not all lines printed (proc), something stripped (strip), non-empty output (tmpl, ph); distinct by JSON of the case"
	if c.Replay != "" {
		var cs c10Case
		b, err := os.ReadFile(c.Replay)
		if err == nil {
			var w struct{ Input c10Case }
			if json.Unmarshal(b, &w) == nil && w.Input.Kind != "" {
				cs = w.Input
			} else {
				json.Unmarshal(b, &cs)
			}
		}
		{
			var w struct{ Input c05NthCase }
			var n c05NthCase
			if json.Unmarshal(b, &w) == nil && w.Input.Kind == "nthseq" {
				c05NthRun(c, &w.Input)
				return
			}
			if json.Unmarshal(b, &n) == nil && n.Kind == "nthseq" {
				c05NthRun(c, &n)
				return
			}
		}
		c10Check(c, cs)
		return
	}
	for _, f := range corpusFiles(c) {
		var cs c10Case
		b, _ := os.ReadFile(f)
		if json.Unmarshal(b, &cs) == nil && cs.Kind != "" {
			c10Check(c, cs)
			c.Rep.Count("corpus")
		}
	}
	r := c.Rng
	// 1. exhaustive small scope: all expressions with bounds -6..6 on 0..6 fields, three delimiter kinds
	all := c10AllExprs(-6, 6)
	// (a regular expression that is a pure literal, and a multi-character plain string, on a smaller scope)
	small := c10AllExprs(-4, 4)
	for di, d := range []c10Delim{{K: 0}, {K: 1, S: ","}, {K: 2, S: ",+"}, {K: 2, S: "\\|\\|"}, {K: 1, S: "::"}} {
		all, maxn := all, 6
		if di >= 3 {
			all, maxn = small, 4
		}
		for n := 0; n <= maxn; n++ {
			for variant := 0; variant < 3; variant++ {
				sep := ","
				if d.K == 0 {
					sep = " "
				}
				if di == 3 {
					sep = "||"
				}
				if di == 4 {
					sep = "::"
				}
				words := []string{}
				for i := 0; i < n; i++ {
					words = append(words, Pick(r, []string{"a", "bc", "é", "中文", "x"})+strconv.Itoa(i+1))
				}
				line := strings.Join(words, sep)
				switch variant {
				case 1:
					if n > 0 {
						line = line + sep // trailing delimiter
					}
				case 2:
					if d.K != 1 {
						line = sep + sep + strings.Join(words, sep+sep) // leading and repeated delimiters
					} else {
						line = sep + line
					}
				}
				c10Check(c, c10Case{Kind: "sel", Line: line, Delim: d, Exprs: all})
			}
		}
	}
	c10OutputSweep(c)
	c.Rep.Exhaustive = true
	c.Rep.Extra["exhaustive_scope"] = "expressions N, A.., ..B, A..B, .. with A,B in -6..6 (incl. 0 = invalid) x 0..6 fields x {awk, literal, regexp} x {plain, trailing delimiter, leading/repeated delimiters}; the same with A,B in -4..4 x 0..4 fields for a regexp that is a pure literal (\\|\\|) and a two-character literal (::)"
	// 2. random
	n := c.N(2500, 60000)
	for i := 0; i < n; i++ {
		d := c10GenDelim(r, false)
		line := c10GenLine(r, d, r.Range(0, 7))
		switch r.Intn(10) {
		case 0, 1, 2:
			c10Check(c, c10Case{Kind: "tok", Line: line, Delim: d})
		case 3:
			c10Check(c, c10Case{Kind: "range", Str: c10GenRangeText(r)})
		case 4, 5, 6:
			es := []c10Expr{}
			for k := r.Range(1, 4); k > 0; k-- {
				es = append(es, c10GenExpr(r, Pick(r, []int{3, 6, 9, 12})))
			}
			c10Check(c, c10Case{Kind: "sel", Line: line, Delim: d, Exprs: es})
		default:
			es := []c10Expr{}
			for k := r.Range(1, 3); k > 0; k-- {
				es = append(es, c10GenExpr(r, Pick(r, []int{3, 6, 9})))
			}
			c10Check(c, c10Case{Kind: "nth", Line: line, Delim: d, Exprs: es, Query: c10GenQuery(r, line, d), Fuzzy: r.Chance(1, 2), Back: r.Chance(1, 4)})
		}
	}
	// 2b. the output side: StripLastDelimiter, plain lists and templates of --with-nth / --accept-nth, {N} placeholders
	n = c.N(1500, 40000)
	for i := 0; i < n; i++ {
		d := c10GenDelim(r, false)
		line := c10GenLine(r, d, r.Range(0, 6))
		switch r.Intn(8) {
		case 0, 1:
			c10Check(c, c10Case{Kind: "strip", Str: line, Delim: d})
		case 2, 3:
			c10Check(c, c10Case{Kind: "tmpl", Mode: Pick(r, []string{"with-nth", "accept-nth", "accept-nth"}), Line: line, Delim: d,
				Exprs: c10GenValidExprs(r, 1, 3, Pick(r, []int{2, 3, 4, 6}))})
		case 4, 5:
			c10Check(c, c10Case{Kind: "tmpl", Mode: Pick(r, []string{"with-nth", "accept-nth"}), Line: line, Delim: d,
				Parts: c10GenParts(r), Index: Pick(r, []int{0, 0, 1, 7, 10, 123456})})
		default:
			c10Check(c, c10Case{Kind: "ph", Line: line, Delim: d, Exprs: c10GenValidExprs(r, 1, 3, Pick(r, []int{2, 3, 4, 6})),
				Flags: Pick(r, []string{"r", "r", "sr", "rs"})})
		}
	}
	// 3. the fzf process
	np := c.N(240, 4500)
	for i := 0; i < np; i++ {
		d := c10GenDelim(r, true)
		es := []c10Expr{}
		for k := r.Range(1, 2); k > 0; k-- {
			e := c10GenExpr(r, 4)
			for !e.documented() || e.negpos() {
				e = c10GenExpr(r, 4)
			}
			es = append(es, e)
		}
		lines := []string{}
		for k := r.Range(1, 6); k > 0; k-- {
			l := strings.ReplaceAll(c10GenLine(r, d, r.Range(1, 5)), "\xff", "")
			if utf8.ValidString(l) && l != "" {
				lines = append(lines, l)
			}
		}
		if len(lines) == 0 {
			continue
		}
		// query: word letters that no delimiter of the process generator contains
		q := Pick(r, []string{"a", "b", "ab", "xyz", "q", "foo", "ba", "中", "A", "bc"})
		if r.Chance(3, 4) {
			q = c10GenProcQuery(r, Pick(r, lines))
		}
		if r.Chance(1, 2) { // a piece of a line, delimiter characters included
			q = c10GenProcQuery2(r, lines)
		}
		mode := Pick(r, []string{"nth", "nth", "with-nth", "accept-nth", "nth", "accept-nth"})
		cs := c10Case{Kind: "proc", Lines: lines, Delim: d, Exprs: es, Query: q, Mode: mode}
		if mode != "nth" && r.Chance(1, 3) { // template form
			cs.Exprs = nil
			cs.Parts = c10GenParts(r)
		}
		c10Check(c, cs)
	}
	// the --nth fields searched must follow change-nth / transform-nth on items that were tokenised before
	// (same stream as C05's nth-history: seeded change C10-5)
	c05NthStream(c)
}

func init() { runners["C10"] = runC10 }
