package main

import (
	"unicode"
	"fmt"
	"sort"
)

// which failure codes belong to which property
var c02Codes = []int{1, 2, 3, 4, 5, 7}
var c03Codes = []int{6}

// report one evaluated case for property prop (C02 or C03)
func algoReport(c *Ctx, prop string, cs algoCase, v algoVerdict, compareModel bool) {
	rep := c.Rep
	rep.ImplTraces++
	matched := len(v.Ans.L) > 0
	rep.Eval(algoKey(cs), len(cs.Pat) > 0 && len(cs.Text) > 0)
	rep.Count(fmt.Sprintf("fn=%d", cs.Fn))
	rep.Count("slab=" + cs.Slab)
	if matched {
		rep.Count("matched")
	} else {
		rep.Count("nomatch")
	}
	if cs.Bytes {
		rep.Count("repr=bytes")
	} else {
		rep.Count("repr=runes")
	}
	n := len(cs.Text)
	switch {
	case n <= 6:
		rep.Count("len<=6")
	case n <= 64:
		rep.Count("len<=64")
	case n <= 1000:
		rep.Count("len<=1000")
	default:
		rep.Count("len>1000")
	}
	if v.Panic != "" {
		if prop == "C02" {
			rep.Disagreement(Disagreement{Kind: "spec", Name: "f_total (never crashes)", Input: cs, Impl: "panic: " + v.Panic, Expect: "an answer"})
		}
		return
	}
	rep.SpecChecks++
	mine := c02Codes
	if prop == "C03" {
		mine = c03Codes
	}
	bad := []int{}
	for _, code := range v.Codes {
		for _, m := range mine {
			if code == m {
				bad = append(bad, code)
			}
		}
	}
	if len(bad) > 0 {
		known := ""
		if prop == "C03" && k2Classifier(cs, v.Ans) {
			known = "K2"
		}
		if prop == "C02" && cs.Fn == 7 && len(cs.Pat) == 0 && len(bad) == 1 && bad[0] == 4 {
			known = "K4" // EqualMatch answers "no match" to the empty pattern whatever the text
		}
		if known == "" {
			cs, v = shrinkAlgo(c, prop, cs, v, mine)
			bad = bad[:0]
			for _, code := range v.Codes {
				for _, m := range mine {
					if code == m {
						bad = append(bad, code)
					}
				}
			}
		}
		rep.Disagreement(Disagreement{Kind: "spec", Name: codeNames[bad[0]], Input: cs, Impl: v.Ans.String(),
			Expect: fmt.Sprintf("spec check codes %v", bad), Known: known})
	}
	if compareModel && v.ModelAns.IsList {
		same := v.ModelAns.Equal(v.Ans)
		if !same && prop == "C03" && len(v.ModelAns.L) >= 3 && len(v.Ans.L) >= 3 {
			// C03 projects the score only
			same = v.ModelAns.L[2].Equal(v.Ans.L[2])
		}
		if !same {
			rep.Disagreement(Disagreement{Kind: "corr", Name: "corr:" + prop + ".algo_model", Input: cs, Impl: v.Ans.String(), Expect: v.ModelAns.String()})
		}
	}
	if matched && len(cs.Text) > 3 {
		rep.Sample(cs)
	}
}

func enumStrings(alpha []int, maxLen int, f func([]int)) {
	var rec func(cur []int)
	rec = func(cur []int) {
		f(append([]int{}, cur...))
		if len(cur) == maxLen {
			return
		}
		for _, a := range alpha {
			rec(append(cur, a))
		}
	}
	rec(nil)
}

var slabKinds = []string{"nil", "clean", "dirty", "hist", "tiny", "small"}

func finishCase(r *RNG, cs *algoCase) {
	cs.Bytes = isASCII(cs.Text) && r.Chance(3, 4)
	if !cs.CS || cs.NM {
		cs.Pat = lowerPat(cs.Pat, cs.CS, cs.NM)
	}
	n, m := len(cs.Text), len(cs.Pat)
	switch cs.Slab {
	case "tiny": // forces the V1 fallback: cap < N*M
		cs.SlabCap = max(n*m-1-r.Intn(3), 0)
	case "small": // N*M fits but the five allocations do not: fresh-array path
		cs.SlabCap = n*m + r.Intn(3)
	}
}

func randCase(r *RNG, maxLen int, fns []int) algoCase {
	n := r.Intn(maxLen + 1)
	if r.Chance(1, 3) {
		n = r.Intn(min(maxLen, 12) + 1)
	}
	text := genText(r, n, r.Chance(1, 2))
	if r.Chance(1, 15) { // whitespace-heavy
		for i := range text {
			if r.Bool() {
				text[i] = Pick(r, alphaSpace)
			}
		}
	}
	cs := algoCase{Fn: Pick(r, fns), CS: r.Bool(), NM: r.Bool(), Fwd: r.Bool(), WithPos: r.Bool(), Scheme: r.Intn(3),
		Text: text, Slab: Pick(r, slabKinds)}
	m := 1 + r.Intn(4)
	if r.Chance(1, 10) {
		m = r.Intn(12)
	}
	cs.Pat = genPat(r, text, m)
	if cs.Fn >= 5 && len(text) > 0 && r.Chance(1, 4) { // white space (multi-byte too) around the text: what the anchored matchers trim
		pre, post := []int{}, []int{}
		for k := r.Intn(3); k > 0; k-- {
			pre = append(pre, Pick(r, alphaSpace))
		}
		for k := r.Intn(3); k > 0; k-- {
			post = append(post, Pick(r, alphaSpace))
		}
		text = append(append(pre, text...), post...)
		cs.Text = text
	}
	isSp := func(x int) bool { return unicode.IsSpace(rune(x)) }
	if cs.Fn >= 5 && len(text) > 0 && r.Chance(2, 3) { // anchored kinds: take a real prefix/suffix/whole, maybe trimmed
		lo, hi := 0, len(text)
		for lo < hi && r.Chance(2, 3) && isSp(text[lo]) {
			lo++
		}
		for hi > lo && r.Chance(2, 3) && isSp(text[hi-1]) {
			hi--
		}
		switch cs.Fn {
		case 5:
			hi = min(hi, lo+1+r.Intn(4))
		case 6:
			lo = max(lo, hi-1-r.Intn(4))
		}
		cs.Pat = append([]int{}, text[lo:hi]...)
	}
	finishCase(r, &cs)
	return cs
}

func runAlgoProp(c *Ctx, prop string) {
	fns := []int{1, 2, 3, 4, 5, 6, 7}
	if c.Replay != "" {
		for _, cs := range sortByScheme(loadAlgoCases(c.Replay)) {
			algoReport(c, prop, cs, algoEval(c, cs, NewRNG(1), true), true)
		}
		return
	}
	corpus := []algoCase{}
	for _, f := range corpusFiles(c) {
		corpus = append(corpus, loadAlgoCases(f)...)
	}
	c.Rep.CountN("corpus", len(corpus))
	corpus = sortByScheme(corpus)
	ci := 0
	for _, sch := range schemeOrder {
		for ; ci < len(corpus) && corpus[ci].Scheme == sch; ci++ {
			algoReport(c, prop, corpus[ci], algoEval(c, corpus[ci], NewRNG(1), true), true)
		}
		runAlgoScheme(c, prop, sch, fns)
	}
}

func sortByScheme(cs []algoCase) []algoCase {
	sort.SliceStable(cs, func(i, j int) bool { return schemeRank[cs[i].Scheme] < schemeRank[cs[j].Scheme] })
	return cs
}

func runAlgoScheme(c *Ctx, prop string, sch int, fns []int) {
	// (i) exhaustive small scope
	L, P := 4, 2
	if c.Thorough() {
		L, P = 5, 3
	}
	var texts, pats [][]int
	enumStrings(alphaSmall, L, func(s []int) { texts = append(texts, s) })
	enumStrings(alphaPat, P, func(s []int) { pats = append(pats, s) })
	type job struct{ t, p []int }
	jobs := []job{}
	for _, t := range texts {
		for _, p := range pats {
			jobs = append(jobs, job{t, p})
		}
	}
	stride := 3
	if !c.Thorough() {
		stride = 6 // a third of the pairs per scheme (thorough) / a sixth (quick), so each pair x matcher is visited
	}
	parallel(c, len(jobs), func(i int, r *RNG) {
		for _, fn := range fns {
			if (i+fn+sch)%stride != 0 {
				continue
			}
			cs := algoCase{Fn: fn, CS: r.Bool(), NM: r.Bool(), Fwd: r.Bool(), WithPos: r.Bool(), Scheme: sch,
				Text: jobs[i].t, Pat: jobs[i].p, Slab: Pick(r, slabKinds)}
			finishCase(r, &cs)
			algoReport(c, prop, cs, algoEval(c, cs, r, true), true)
		}
	})
	c.Rep.Extra["exhaustive_scope"] = fmt.Sprintf("texts len<=%d over {a,A,b,_,space,é} x patterns len<=%d over {a,b,_,space,é} x 7 matchers (stride %d), flags/slab drawn per case", L, P, stride)
	// (ii) random, wide alphabet, model compared when N*M is small enough for the unary-nat extracted code
	n := c.N(2000, 100000)
	parallel(c, n, func(i int, r *RNG) {
		maxLen := 60
		if i%10 == 0 {
			maxLen = 400
		}
		cs := randCase(r, maxLen, fns)
		cs.Scheme = sch
		small := len(cs.Text)*max(len(cs.Pat), 1) <= 3000
		algoReport(c, prop, cs, algoEval(c, cs, r, small), small)
	})
	// (iii) long inputs: implementation only (crash freedom, range sanity in Go) + spec check when affordable
	nl := c.N(2, 70)
	parallel(c, nl, func(i int, r *RNG) {
		cs := randCase(r, 70000, fns)
		cs.Scheme = sch
		if len(cs.Pat) > 0 && r.Chance(1, 3) { // long patterns too
			cs.Pat = genPat(r, cs.Text, 1+r.Intn(1500))
			finishCase(r, &cs)
		}
		algoMu.Lock()
		setScheme(cs.Scheme)
		ans, pan := algoImpl(cs, r)
		algoMu.Unlock()
		c.Rep.ImplTraces++
		c.Rep.Eval(algoKey(cs), true)
		c.Rep.Count("long")
		if pan != "" && prop == "C02" {
			c.Rep.Disagreement(Disagreement{Kind: "spec", Name: "f_total (never crashes)", Input: cs, Impl: "panic: " + pan, Expect: "an answer"})
			return
		}
		if len(ans.L) >= 2 && prop == "C02" {
			s, e := int(ans.L[0].I), int(ans.L[1].I)
			if s < 0 || s > e || e > len(cs.Text) {
				c.Rep.Disagreement(Disagreement{Kind: "spec", Name: "range", Input: cs, Impl: ans.String(), Expect: "0<=s<=e<=len"})
			}
		}
	})
}

func init() {
	runners["C02"] = func(c *Ctx) {
		c.Rep.Rule = "exhaustive short strings over an alphabet with every character class + random wide-alphabet cases + long inputs; 7 matchers x case/normalise/direction/withPos/scheme/representation/slab state; non-trivial = text and pattern non-empty; distinct by JSON of the case"
		runAlgoProp(c, "C02")
	}
	runners["C03"] = func(c *Ctx) {
		c.Rep.Rule = "same generators as C02; the score of every implementation answer is compared with the documented model (naive whole-line DP for V2, alignment score of the reported occurrence for V1/exact/prefix/suffix, closed form for equal); non-trivial = text and pattern non-empty"
		runAlgoProp(c, "C03")
	}
}

// shrinkAlgo: delta-debug a failing case by deleting text / pattern characters while some failure code of
// this property persists (and the K2 classifier still rejects it).
func shrinkAlgo(c *Ctx, prop string, cs algoCase, v algoVerdict, mine []int) (algoCase, algoVerdict) {
	fails := func(x algoCase) (algoVerdict, bool) {
		if x.Bytes && !isASCII(x.Text) {
			return algoVerdict{}, false
		}
		w := algoEval(c, x, NewRNG(1), false)
		if w.Panic != "" {
			return w, false
		}
		if prop == "C03" && k2Classifier(x, w.Ans) {
			return w, false
		}
		return w, hasCode(w.Codes, mine...)
	}
	for progress := true; progress; {
		progress = false
		for i := 0; i < len(cs.Text); i++ {
			x := cs
			x.Text = append(append([]int{}, cs.Text[:i]...), cs.Text[i+1:]...)
			if w, ok := fails(x); ok {
				cs, v, progress = x, w, true
				i--
			}
		}
		for i := 0; i < len(cs.Pat) && len(cs.Pat) > 1; i++ {
			x := cs
			x.Pat = append(append([]int{}, cs.Pat[:i]...), cs.Pat[i+1:]...)
			if w, ok := fails(x); ok {
				cs, v, progress = x, w, true
				i--
			}
		}
	}
	return cs, v
}
