package main

// C14 (H) — mouse histories.  The robustness stream (D) types isolated random mouse reports; what it never produced is a
// GESTURE: a button press on a particular cell of the layout (last column of the list, a scrollbar, a border of the preview
// window, the header, the prompt, a margin), pointer motion with the button held to somewhere else -- other windows, the
// margins, the first / last row and column of the screen, positions outside the screen -- and a release.  fzf keeps state
// across the events of a gesture (scrollbar dragging, preview scrollbar dragging, preview border dragging, preview
// dragging, the pressed cell), and that state decides which guards later events skip.
//
// Two profiles, both run through c14Robust (same spec checks: no panic text on the terminal, GET / keeps answering, every
// exit leaves modes / termios / TMPDIR / process table clean):
//
//	sweep   small screen (10..26 x 5..14): EVERY cell is a press origin; from each the pointer is dragged to the four
//	        extremes (first/last row and column of the screen and one beyond) and released.  Layout options, number of
//	        items (around the number of list rows: with and without a scrollbar) and preview placement are random.
//	free    larger screens: partial row / column sweeps near the edges, free gestures with boundary-biased points,
//	        any button and modifier, wheel events, double clicks, with actions / resizes / typing between the events of a
//	        gesture (the layout changes while the button is held).
//
// Coordinates are SGR (1006) reports, 1-based; 0 and max+k are outside the screen.
//
// The model side: the part of the handler that indexes the table of printed lines (Terminal.prevLines) is restated in
// coq/model/MouseModel.v and proved to stay inside the table for every event and every dragging state that the handler
// itself can produce (mouse_row_in_bounds); the harness compares nothing with it per event (the handler is not reachable
// without a terminal), the tie is the session stream below.

import (
	"bytes"
	"fmt"
	"os"
	"strings"
	"time"

	"golang.org/x/sys/unix"
)

// c14WaitTaken: eventually (bounded) the terminal's input queue is empty, i.e. fzf has read what was typed.  The reports
// of a step are written while the queue is empty and are shorter than the queue (4 KB), so a report is never cut in two
// by a full queue (fzf would read the second half as typed text -- legal, but it makes a session depend on scheduling).
func c14WaitTaken(s *Session, slave *os.File, limit time.Duration) {
	if slave == nil {
		return
	}
	deadline := time.Now().Add(limit)
	zero := 0
	for time.Now().Before(deadline) && !s.Exited() {
		n, err := unix.IoctlGetInt(int(slave.Fd()), unix.TIOCINQ)
		if err != nil {
			return
		}
		if n == 0 {
			zero++
			if zero >= 2 {
				return
			}
		} else {
			zero = 0
		}
		time.Sleep(300 * time.Microsecond)
	}
}

// c14MouseSteps: the reports of several gestures as steps of at most ~1 KB, never cutting a gesture
func c14MouseSteps(gestures [][]byte) []c14Step {
	out := []c14Step{}
	var b []byte
	for _, g := range gestures {
		if len(b) > 0 && len(b)+len(g) > 1000 {
			out = append(out, c14Step{T: "mouse", B: b})
			b = nil
		}
		b = append(b, g...)
	}
	if len(b) > 0 {
		out = append(out, c14Step{T: "mouse", B: b})
	}
	return out
}

func c14Sgr(b *bytes.Buffer, btn, x, y int, down bool) {
	m := "M"
	if !down {
		m = "m"
	}
	fmt.Fprintf(b, "\x1b[<%d;%d;%d%s", btn, x, y, m)
}

// boundary-biased coordinate in 0..max+3 (1-based; 0 and > max are outside)
func c14Coord(r *RNG, max int) int { return c14CoordZ(r, max, true) }

// c14Col: a column; never 0.  A report with column 0 is complete but invalid for fzf's decoder, which then blocks in its
// "second chance" read until more input arrives before it discards the report: k such reports make fzf act on a typed
// esc / ctrl-c only after k further key presses (observed on the unchanged tree, reported; the robustness stream (D) still
// types such reports, one at a time).  Rows 0 / beyond the screen and columns beyond the screen are all produced.
func c14Col(r *RNG, max int) int { return c14CoordZ(r, max, false) }

func c14CoordZ(r *RNG, max int, zero bool) int {
	if v := c14CoordRaw(r, max); v >= 1 || zero {
		return v
	}
	return 1
}

func c14CoordRaw(r *RNG, max int) int {
	switch r.Intn(10) {
	case 0:
		return Pick(r, []int{0, 1, 1, 2, 3})
	case 1, 2:
		return max - Pick(r, []int{0, 0, 1, 2, 3, 4})
	case 3:
		return max + Pick(r, []int{1, 1, 2, 3})
	case 4:
		return (max + 1) / 2
	}
	return r.Range(1, max)
}

func c14Clamp1(v int) int {
	if v < 0 {
		return 0
	}
	return v
}

// the layout-centred option pool: one entry per group at most
func c14MouseOpts(r *RNG) []string {
	groups := [][][]string{
		{{"--reverse"}, {"--layout=reverse-list"}, {"--layout=default"}},
		{{"--border"}, {"--border=double"}, {"--border=horizontal"}, {"--border=vertical"}, {"--border=top"}, {"--border=bottom"}, {"--border=left"}, {"--border=right"},
			{"--list-border"}, {"--input-border"}, {"--header-border"}, {"--style=full"}, {"--style=minimal"}, {"--list-border", "--input-border"}, {"--border", "--list-border"}},
		{{"--margin=1"}, {"--margin=2,3"}, {"--margin=10%"}, {"--margin=0,0,3,0"}, {"--margin=3,0,0,0"}, {"--padding=1"}, {"--padding=2,4"}, {"--padding=1,0,3,2"}, {"--margin=1", "--padding=1"}},
		{{"--height=50%"}, {"--height=~100%"}, {"--height=6"}, {"--height=~8"}, {"--height=100%"}, {"--height=80%", "--min-height=3"}},
		{{"--preview=echo {}"}, {"--preview=seq 100"}, {"--preview=seq 100", "--preview-window=down"}, {"--preview=seq 100", "--preview-window=up"}, {"--preview=seq 100", "--preview-window=left"},
			{"--preview=echo {}", "--preview-window=down,3"}, {"--preview=echo {}", "--preview-window=up,30%"}, {"--preview=seq 100", "--preview-window=left,5"},
			{"--preview=seq 100", "--preview-window=right,border-none"}, {"--preview=seq 100", "--preview-window=down,border-top"}, {"--preview=seq 100", "--preview-window=up,border-bottom,~2"},
			{"--preview=seq 100", "--preview-window=hidden"}, {"--preview=seq 100", "--preview-window=right,wrap,follow"}, {"--preview=seq 3", "--preview-window=down,1,border-none"},
			{"--preview=seq 100", "--preview-window=left,border-right", "--preview-border=sharp"}, {"--preview=seq 100", "--preview-window=up,99%"}},
		{{"--header=H1\nH2"}, {"--header-lines=1"}, {"--header-first", "--header=H"}, {"--header-lines=2", "--header=H"}, {"--header=H", "--header-lines=1", "--header-lines-border"},
			{"--header=H", "--bind=click-header:transform-prompt(echo $FZF_CLICK_HEADER_LINE:$FZF_CLICK_HEADER_COLUMN)"}},
		{{"--no-scrollbar"}, {"--scrollbar=|"}, {"--scrollbar=|:"}, {"--multi"}, {"--wrap"}, {"--gap"}, {"--gap=2"}, {"--info=inline"}, {"--info=hidden"}, {"--info=inline-right"}, {"--no-input"},
			{"--no-separator"}, {"--highlight-line"}, {"--cycle"}, {"--scroll-off=0"}, {"--no-hscroll"}, {"--read0"}, {"--tac"}, {"--track"}, {"--pointer=>>"}, {"--marker=**", "--multi"},
			{"--bind=left-click:toggle"}, {"--bind=right-click:preview-down,double-click:toggle"}, {"--bind=scroll-up:up+up,scroll-down:toggle-preview"}, {"--bind=double-click:ignore"}},
	}
	out := []string{}
	for _, g := range groups {
		if r.Chance(2, 5) {
			out = append(out, Pick(r, g)...)
		}
	}
	return out
}

func c14MouseInput(r *RNG, rows int, nul bool) []byte {
	n := c14Clamp1(Pick(r, []int{0, 1, 2, 3, rows / 2, rows - 6, rows - 5, rows - 4, rows - 3, rows - 2, rows - 1, rows, rows + 1, 3 * rows, 500}))
	var in bytes.Buffer
	for i := 1; i <= n; i++ {
		switch {
		case r.Chance(1, 12):
			fmt.Fprintf(&in, "%d %s", i, strings.Repeat("long ", r.Range(20, 80)))
		case r.Chance(1, 12):
			fmt.Fprintf(&in, "%d 漢字 ｗｉｄｅ", i)
		case nul && r.Chance(1, 3):
			fmt.Fprintf(&in, "%d first\nsecond\nthird", i)
		default:
			fmt.Fprintf(&in, "item %d", i)
		}
		if nul {
			in.WriteByte(0)
		} else {
			in.WriteByte('\n')
		}
	}
	return in.Bytes()
}

var c14MouseActs = []string{"toggle-preview", "change-preview-window(up|down|left|right,border-none|hidden|)", "change-preview-window(down,2|up,90%|)", "toggle-header", "toggle-input", "hide-input",
	"show-input", "reload(seq 3)", "reload(seq 300)", "reload-sync(seq 2)", "change-query(1)", "clear-query", "change-query(nomatchatall)", "toggle-wrap", "toggle-multi-line", "change-header(a\nb\nc)",
	"change-header()", "last", "first", "page-down", "half-page-up", "select-all", "exclude", "offset-down", "offset-up", "toggle-sort", "change-list-label(L)", "change-border-label(B)",
	"preview(seq 200)", "preview-bottom", "refresh-preview", "clear-screen", "toggle-preview-wrap"}

// one gesture from (x,y): press, drag to the extremes in the order `order`, release
func c14Drags(b *bytes.Buffer, btn, x, y, cols, rows int, order []int, beyond bool) {
	c14Sgr(b, btn, x, y, true)
	for _, d := range order {
		switch d {
		case 0: // up
			c14Sgr(b, btn+32, x, 1, true)
			if beyond {
				c14Sgr(b, btn+32, x, 0, true)
			}
		case 1: // down
			c14Sgr(b, btn+32, x, rows, true)
			if beyond {
				c14Sgr(b, btn+32, x, rows+1, true)
			}
		case 2: // left
			c14Sgr(b, btn+32, 1, y, true)
		case 3: // right
			c14Sgr(b, btn+32, cols, y, true)
			if beyond {
				c14Sgr(b, btn+32, cols+1, y, true)
			}
		}
	}
	c14Sgr(b, btn, x, y, false)
}

func c14Perm4(r *RNG) []int {
	p := []int{0, 1, 2, 3}
	for i := 3; i > 0; i-- {
		j := r.Intn(i + 1)
		p[i], p[j] = p[j], p[i]
	}
	return p[:r.Range(2, 4)]
}

func c14GenMouse(r *RNG, i int) c14Case {
	cs := c14Case{Kind: "robust", Profile: "mouse-sweep"}
	if i%2 == 1 {
		cs.Profile = "mouse-free"
	}
	if cs.Profile == "mouse-sweep" {
		cs.Cols, cs.Rows = r.Range(10, 26), r.Range(5, 14)
	} else {
		cs.Cols, cs.Rows = Pick(r, []int{20, 40, 80, 80, 120}), Pick(r, []int{6, 10, 16, 24, 24, 40})
	}
	cs.Args = c14MouseOpts(r)
	nul := false
	for _, a := range cs.Args {
		if a == "--read0" {
			nul = true
		}
	}
	cs.Input = c14MouseInput(r, cs.Rows, nul)
	cols, rows := cs.Cols, cs.Rows
	cs.Steps = append(cs.Steps, c14Step{T: "sync"})
	if r.Chance(1, 4) {
		cs.Steps = append(cs.Steps, c14Step{T: "postsync", S: Pick(r, c14MouseActs)})
	}
	if cs.Profile == "mouse-sweep" {
		order := c14Perm4(r)
		btn := Pick(r, []int{0, 0, 0, 0, 2, 4, 16})
		beyond := r.Chance(3, 4)
		for y := 1; y <= rows; y++ {
			gs := [][]byte{}
			for x := 1; x <= cols; x++ {
				var b bytes.Buffer
				c14Drags(&b, btn, x, y, cols, rows, order, beyond)
				gs = append(gs, b.Bytes())
			}
			cs.Steps = append(cs.Steps, c14MouseSteps(gs)...)
			if y%4 == 0 {
				cs.Steps = append(cs.Steps, c14Step{T: "sync"})
			}
		}
	} else {
		g := r.Range(15, 40)
		for k := 0; k < g; k++ {
			var b bytes.Buffer
			gs := [][]byte{} // whole gestures of this round
			cut := func() { gs = append(gs, append([]byte{}, b.Bytes()...)); b.Reset() }
			btn := Pick(r, []int{0, 0, 0, 0, 0, 1, 2, 4, 8, 16, 20})
			switch r.Intn(20) {
			case 0, 1, 2, 3, 4, 5, 6: // part of a row, near an edge or anywhere
				y := c14Coord(r, rows)
				n := r.Range(3, 12)
				a := Pick(r, []int{1, cols - n + 1, cols - n + 1, cols/2 - n/2, r.Range(1, cols)})
				order := c14Perm4(r)
				for x := a; x < a+n; x++ {
					if x >= 1 {
						c14Drags(&b, btn, x, y, cols, rows, order, true)
						cut()
					}
				}
			case 7, 8, 9: // part of a column
				x := c14Col(r, cols)
				n := r.Range(3, 8)
				a := Pick(r, []int{1, rows - n + 1, rows/2 - n/2, r.Range(1, rows)})
				order := c14Perm4(r)
				for y := a; y < a+n; y++ {
					if y >= 0 && x >= 1 {
						c14Drags(&b, btn, x, y, cols, rows, order, true)
						cut()
					}
				}
			case 10, 11, 12, 13, 14: // free gesture, possibly with something happening while the button is held
				c14Sgr(&b, btn, c14Col(r, cols), c14Coord(r, rows), true)
				m := r.Range(1, 5)
				for j := 0; j < m; j++ {
					if r.Chance(1, 6) {
						cs.Steps = append(cs.Steps, c14Step{T: "mouse", B: append([]byte{}, b.Bytes()...)})
						b.Reset()
						switch r.Intn(4) {
						case 0:
							cs.Steps = append(cs.Steps, c14Step{T: "resize", X: Pick(r, []int{cols, cols / 2, cols + 7, 5, 1}), Y: Pick(r, []int{rows, rows / 2, rows + 3, 3, 1})})
						case 1:
							cs.Steps = append(cs.Steps, c14Step{T: "keys", B: []byte(Pick(r, []string{"1", "x", "\x7f", "\x1b[A", "\x1b[B", "\t"}))})
						default:
							cs.Steps = append(cs.Steps, c14Step{T: "postsync", S: Pick(r, c14MouseActs)})
						}
					}
					c14Sgr(&b, btn+32, c14Col(r, cols), c14Coord(r, rows), true)
				}
				if r.Chance(4, 5) {
					c14Sgr(&b, btn, c14Col(r, cols), c14Coord(r, rows), false)
				}
			case 15, 16: // wheel
				x, y := c14Col(r, cols), c14Coord(r, rows)
				w := Pick(r, []int{64, 65, 64 + 4, 65 + 4, 64 + 8, 65 + 16, 66, 67})
				for j := r.Range(1, 5); j > 0; j-- {
					c14Sgr(&b, w, x, y, true)
				}
			case 17: // double click (the default binding accepts: the session may end here)
				x, y := c14Col(r, cols), c14Coord(r, rows)
				c14Sgr(&b, 0, x, y, true)
				c14Sgr(&b, 0, x, y, false)
				c14Sgr(&b, 0, x, y, true)
				c14Sgr(&b, 0, x, y, false)
			default: // the layout changes between gestures
				switch r.Intn(3) {
				case 0:
					cs.Steps = append(cs.Steps, c14Step{T: "resize", X: Pick(r, []int{cols, cols / 2, cols + 7, 5, 1}), Y: Pick(r, []int{rows, rows / 2, rows + 3, 3, 1})})
				default:
					cs.Steps = append(cs.Steps, c14Step{T: "postsync", S: Pick(r, c14MouseActs)})
				}
			}
			if b.Len() > 0 {
				cut()
			}
			cs.Steps = append(cs.Steps, c14MouseSteps(gs)...)
			if k%6 == 5 {
				cs.Steps = append(cs.Steps, c14Step{T: "sync"})
			}
		}
	}
	cs.Steps = append(cs.Steps, c14Step{T: "sync"})
	cs.Exit = Pick(r, []string{"accept", "abort", "sigint", "sigterm", "abort", "esc", "ctrl-c"})
	return cs
}

// c14MouseModel: the model of the list part of the handler (op 1412) on random geometries and histories; the verdict of
// the spec on the MODEL's outcomes must be "safe" (proved: mouse_row_in_bounds; this feeds the in-Coq re-evaluation of
// the extracted code, it says nothing about the implementation).
func c14MouseModel(c *Ctx, n int) {
	r := c.Rng
	for i := 0; i < n; i++ {
		lines := r.Range(1, 30)
		h := r.Range(0, lines)
		g := []int{r.Range(0, 5), r.Range(0, 5), h, r.Range(0, 20), r.Range(0, 4), r.Intn(3), lines}
		evs := []Val{}
		type ev struct{ X, Y, Down, Taken, Bar int }
		hist := []ev{}
		for k := r.Range(1, 8); k > 0; k-- {
			e := ev{r.Range(-2, 28), r.Range(-3, 34), r.Intn(2), Pick(r, []int{0, 0, 0, 1}), Pick(r, []int{0, 0, 1, 3})}
			if r.Chance(1, 3) { // the last column of the window
				e.X = g[1] + g[3] - 1
			}
			hist = append(hist, e)
			evs = append(evs, L(I(e.X), I(e.Y), I(e.Down), I(e.Taken), I(e.Bar)))
		}
		mv := c.Model.Call(1412, L(L(I(g[0]), I(g[1]), I(g[2]), I(g[3]), I(g[4]), I(g[5]), I(g[6])), L(evs...)))
		c.Rep.SpecChecks++
		if len(mv.L) != 2 || mv.L[1].I != 1 {
			c.Rep.Disagreement(Disagreement{Kind: "corr", Name: "corr:C14.mouse_model_row_in_bounds", Input: map[string]interface{}{"kind": "mousemodel", "geom": g, "events": hist},
				Impl: mv.String(), Expect: "every row the model looks up is inside the table (mouse_row_in_bounds)"})
		}
		c.Rep.Count("mousemodel")
	}
}
