package main

// C12 — placeholders expand to shell words that evaluate back to the original text.
//
// Per case:
//   impl   : fzf.VerifReplacePlaceholder / VerifEscapeSingleQuote (hooks, build tag verif)
//   corr   : impl command line and temp-file contents == extracted model (op 1201 / 1207 / 1208)
//   spec A : sh_words(impl command) == template_words(segments)   (both evaluated in the extracted Coq spec;
//            segments = literal text / the words each placeholder stands for, computed here from the case:
//            {} -> current text, {+} -> selected texts in order, {q} -> query, {n} -> decimal ordinal ...)
//   spec B : the real /bin/sh (dash) and bash, given `printf '%s\0' X <impl command>`, print exactly those words
//   corr D : the shell model itself: wherever sh_words(line) = Some ws, dash and bash agree (on expansions and on
//            random lines over blanks, ', \ and ordinary characters)
//   spec F : every f-placeholder of the template names a temp file that holds exactly the values THIS placeholder stands
//            for, each followed by the print separator (file_holds_own_values; Coq spec file_text, op 1214; for field
//            ranges the values are the model's reading of the placeholder expanded on its own, op 1212)
//   kinds term and live (c12term.go): the same checks at the level of the running finder (buildPlusList; the fzf
//            process on a pty)
//   which shell reads the expansion (c12shell.go): every tpl / raw / term / live case carries a value of $SHELL and of
//            --with-shell; the dialect the checks above are made against (POSIX: A, B; fish: the fish spec) is the one the
//            Coq spec derives for the shell that RUNS the command (running_shell / runs_fish, op 1215); kind quote checks
//            NewExecutor + QuoteEntry directly (quote_dialect_follows_running_shell, executor_runs_the_documented_shell)
//   kind relaunch (c12relaunch.go): fzf --tmux through a stand-in tmux: argv and environment of the re-launched fzf
//   what a line is to a placeholder (c12view.go): term and live cases with a view (--ansi, --with-nth, colour and other display
//            options; lines carrying complete control sequences) are judged over item_text of the lines (Coq spec, op 1223)
// Shell runs are batched (50 snippets per process).

import (
	"bytes"
	"context"
	"encoding/json"
	"fmt"
	"os"
	"os/exec"
	"regexp"
	"strconv"
	"strings"
	"time"

	fzf "github.com/junegunn/fzf/src"
)

type c12Item struct {
	Idx  int32  `json:"idx"`
	Text string `json:"text"`
}

// part of a structured template: T = "lit" (shell-neutral literal), "ph" (live placeholder), "esc" (escaped placeholder, S without the backslash)
type c12Part struct {
	T string `json:"t"`
	S string `json:"s"`
}

type c12Case struct {
	Kind      string    `json:"kind"` // tpl | raw | tmux | env | line
	Template  string    `json:"template,omitempty"`
	Parts     []c12Part `json:"parts,omitempty"` // nil for kind raw
	Delim     *string   `json:"delim,omitempty"`
	Printsep  string    `json:"printsep,omitempty"`
	ForcePlus bool      `json:"force_plus,omitempty"`
	Query     string    `json:"query,omitempty"`
	Cur       *c12Item  `json:"cur,omitempty"`
	Sel       []c12Item `json:"sel,omitempty"`
	Prompt    string    `json:"prompt,omitempty"`
	Fish      bool      `json:"fish,omitempty"`
	Args      []string  `json:"args,omitempty"`  // tmux: args[0] is the fzf path
	Name      string    `json:"name,omitempty"`  // env
	Value     string    `json:"value,omitempty"` // env
	Line      string    `json:"line,omitempty"`  // line: a raw command line for the shell model
	// kind term (hook: buildPlusList + Terminal.replacePlaceholder) and live (the fzf process on a pty): the finder's state
	Items    []c12Item `json:"items,omitempty"`     // the list in display order (live: idx = position in the input)
	Cy       int       `json:"cy,omitempty"`        // term: list position of the cursor (outside the list: no current item)
	SelOrder []int     `json:"sel_order,omitempty"` // term: list positions, in the order they were selected
	Acts     []string  `json:"acts,omitempty"`      // live: actions run before the command
	Mode     string    `json:"mode,omitempty"`      // live: execute-silent | execute | execute-multi | transform-header | preview | reload | become
	Shell    string    `json:"shell,omitempty"`     // live: --with-shell ("" = $SHELL -c = /bin/sh -c)
	Search   bool      `json:"search,omitempty"`    // live: the query filters the list (otherwise --disabled when a query is given)
	FilePhs  []string  `json:"file_phs,omitempty"`  // live: f-placeholders, each read with cat in the same command
	// which shell reads the expansion (kinds tpl, raw, term, quote, live): $SHELL the executor is built under (absent:
	// /bin/sh) and --with-shell (kinds tpl, raw, term, quote; absent: "sh -c", or "fish -c" when fish is set; live: Shell)
	EnvShell  *string  `json:"env_shell,omitempty"`
	WithShell *string  `json:"with_shell,omitempty"`
	Words     []string `json:"words,omitempty"` // quote: the strings handed to QuoteEntry
	// kind relaunch (c12relaunch.go): fzf --tmux through a stand-in tmux; Args = the command line after argv[0]
	Env   []string  `json:"env,omitempty"`   // environment entries NAME=value of the outer fzf
	Funcs []c12Func `json:"funcs,omitempty"` // exported bash functions of the outer environment
	// kinds live and term (c12view.go): how the finder looks at the lines (--ansi, --with-nth, colour and other display
	// options); absent: none of these options, the items are the lines
	View *c12View `json:"view,omitempty"`
}

type c12Func struct {
	Name string `json:"name"`
	Body string `json:"body"` // source text between the braces; the exported form is bash's own serialisation of it
}

// shellPair: the value of $SHELL and of --with-shell a case runs under
func (cs c12Case) shellPair() (env, with string) {
	env = "/bin/sh"
	if cs.EnvShell != nil {
		env = *cs.EnvShell
	}
	switch {
	case cs.Kind == "live":
		with = cs.Shell
	case cs.WithShell != nil:
		with = *cs.WithShell
	default:
		with = c12WithShell(cs.Fish)
	}
	return
}

// the state of the current run (the dialect of a case is a question to the Coq spec)
var c12Cur *c12State

type c12Dialect struct {
	running string // the program that runs the command (spec running_shell)
	fish    bool   // its quoting dialect is fish's (spec runs_fish)
}

// dialect: Coq spec running_shell / runs_fish (op 1215) for $SHELL = env and --with-shell = with
func (s *c12State) dialect(env, with string) c12Dialect {
	k := env + "\x00" + with
	if d, ok := s.dialects[k]; ok {
		return d
	}
	v := s.c.Model.Call(1215, L(Bytes(env), Bytes(with)))
	d := c12Dialect{}
	if v.IsList && len(v.L) == 2 {
		d = c12Dialect{running: v.L[0].Str(), fish: v.L[1].I != 0}
	}
	if s.dialects == nil {
		s.dialects = map[string]c12Dialect{}
	}
	s.dialects[k] = d
	return d
}

func c12IsFish(cs c12Case) bool {
	env, with := cs.shellPair()
	return c12Cur.dialect(env, with).fish
}

// underShell runs f with $SHELL = env (NewExecutor reads it from the process environment; the harness calls the hooks
// sequentially) and restores the previous value
func c12UnderShell(env string, f func()) {
	old, had := os.LookupEnv("SHELL")
	os.Setenv("SHELL", env)
	defer func() {
		if had {
			os.Setenv("SHELL", old)
		} else {
			os.Unsetenv("SHELL")
		}
	}()
	f()
}

// ---- real shells ----

type c12ShellJob struct {
	cs      c12Case
	snippet string   // shell text that prints NUL-terminated words, the first being the sentinel X
	want    []string // words expected after the sentinel
	kind    string   // disagreement kind when a shell differs
	name    string   // disagreement name prefix
}

type c12State struct {
	bytesSeen [256]bool // bytes that occurred in a value whose round trip was checked (Coq spec, then real shells)
	corrSeen  map[string]int
	c         *Ctx
	jobs      []c12ShellJob
	batchNo   int
	shells    []string
	now       bool // replay: run shell jobs immediately
	liveFails int  // live sessions that ended in a disagreement (no more sessions after 3)
	dialects  map[string]c12Dialect
	rlFails   int       // relaunch runs that ended in a disagreement
	fishBytes [256]bool // bytes seen in words whose fish-quoted expansion was read back by the fish spec
	envBytes  [256]bool // bytes seen in environment values that arrived unchanged in the re-launched fzf
}

const c12Sentinel = "X"
const c12WordChars = "abcxyzAZ019_-./:,%+@^="
const c12TextChars = "abcxyzAZ019_-./:,"

var c12ShellDir string

func c12RunShell(shell string, script string) ([]string, bool) {
	ctx, cancel := context.WithTimeout(context.Background(), 20*time.Second)
	defer cancel()
	cmd := exec.CommandContext(ctx, shell, "-c", script)
	cmd.Dir = c12ShellDir
	cmd.Env = []string{"PATH=/usr/bin:/bin", "LC_ALL=C"}
	var out bytes.Buffer
	cmd.Stdout = &out
	cmd.Stderr = nil
	err := cmd.Run()
	toks := strings.Split(out.String(), "\x00")
	if len(toks) > 0 {
		toks = toks[:len(toks)-1] // text after the last NUL (normally empty)
	}
	return toks, err == nil
}

func c12SameWords(a, b []string) bool {
	if len(a) != len(b) {
		return false
	}
	for i := range a {
		if a[i] != b[i] {
			return false
		}
	}
	return true
}

func (s *c12State) reportShell(j c12ShellJob, shell string, got []string, ok bool) {
	impl := interface{}(got)
	if !ok {
		impl = fmt.Sprintf("shell failed; output so far %q", got)
	}
	d := Disagreement{Kind: j.kind, Name: j.name + ":" + shell, Input: j.cs, Impl: impl, Expect: j.want}
	if j.kind == "corr" {
		s.corr(d)
	} else {
		s.c.Rep.Disagreement(d)
	}
}

func (s *c12State) runOne(j c12ShellJob) {
	for _, sh := range s.shells {
		toks, ok := c12RunShell(sh, j.snippet+"\n")
		if !ok || len(toks) < 1 || toks[0] != c12Sentinel || !c12SameWords(toks[1:], j.want) {
			if len(toks) > 0 && toks[0] == c12Sentinel {
				toks = toks[1:]
			}
			s.reportShell(j, sh, toks, ok)
		}
	}
}

func (s *c12State) flush() {
	jobs := s.jobs
	s.jobs = nil
	if len(jobs) == 0 {
		return
	}
	s.batchNo++
	var b strings.Builder
	marks := make([]string, len(jobs))
	for i, j := range jobs {
		marks[i] = fmt.Sprintf("--c12-end-%d-%d--", s.batchNo, i)
		b.WriteString(j.snippet)
		b.WriteString("\nprintf '%s\\0' " + marks[i] + "\n")
	}
	for _, sh := range s.shells {
		toks, ok := c12RunShell(sh, b.String())
		s.c.Rep.Count("shell_batches:" + sh)
		// split at the marks
		groups := [][]string{}
		cur := []string{}
		mi := 0
		for _, t := range toks {
			if mi < len(marks) && t == marks[mi] {
				groups = append(groups, cur)
				cur = []string{}
				mi++
			} else {
				cur = append(cur, t)
			}
		}
		if !ok || len(groups) != len(jobs) || len(cur) != 0 {
			// something in the batch broke the script: run every job on its own
			for _, j := range jobs {
				one := *s
				one.shells = []string{sh}
				one.runOne(j)
			}
			continue
		}
		for i, j := range jobs {
			g := groups[i]
			if len(g) < 1 || g[0] != c12Sentinel || !c12SameWords(g[1:], j.want) {
				one := *s
				one.shells = []string{sh}
				one.runOne(j) // confirm in isolation (and report from there)
			}
		}
	}
}

// realShellsAgree: the ground truth of the property. Used when the restricted shell spec cannot read a command
// line (sh_words = None or different words): if dash and bash both produce the expected words, the expansion is
// still right (it merely uses quoting beyond the restricted language) and the case is a correspondence
// difference, not a violation.
func (s *c12State) realShellsAgree(snippet string, want []string) bool {
	if strings.Contains(snippet, "\x00") {
		return false
	}
	for _, sh := range s.shells {
		toks, ok := c12RunShell(sh, snippet+"\n")
		if !ok || len(toks) < 1 || toks[0] != c12Sentinel || !c12SameWords(toks[1:], want) {
			return false
		}
	}
	return true
}

// corr records a correspondence difference, at most 5 per name, so that the report (50 entries) keeps room for
// violations of the property itself
func (s *c12State) corr(d Disagreement) {
	if s.corrSeen == nil {
		s.corrSeen = map[string]int{}
	}
	s.corrSeen[d.Name]++
	if s.corrSeen[d.Name] > 5 {
		s.c.Rep.Count("more:" + d.Name)
		return
	}
	s.c.Rep.Disagreement(d)
}

func (s *c12State) specOrCorr(cs c12Case, name string, snippet string, got interface{}, want []string) {
	if s.c.Rep.NDisagree() >= 50 {
		return // the report keeps 50; no point in running more broken command lines
	}
	if s.realShellsAgree(snippet, want) {
		s.corr(Disagreement{Kind: "corr", Name: "corr:C12.quoting_outside_restricted_shell_spec(" + name + ")", Input: cs, Impl: got, Expect: want})
		return
	}
	s.c.Rep.Disagreement(Disagreement{Kind: "spec", Name: name, Input: cs, Impl: got, Expect: want})
}

func (s *c12State) shellJob(j c12ShellJob) {
	s.c.Rep.CountN("shell_snippets", len(s.shells))
	if s.now {
		s.runOne(j)
		return
	}
	s.jobs = append(s.jobs, j)
	if len(s.jobs) >= 50 {
		s.flush()
	}
}

// ---- spec / model calls ----

func c12OptWords(v Val) ([]string, bool) {
	if !v.IsList || len(v.L) != 1 {
		return nil, false
	}
	ws := []string{}
	for _, w := range v.L[0].L {
		ws = append(ws, w.Str())
	}
	return ws, true
}

func (s *c12State) shWords(line string) ([]string, bool) {
	return c12OptWords(s.c.Model.Call(1202, Bytes(line)))
}

func c12Items(its []c12Item) Val {
	vs := []Val{}
	for _, it := range its {
		vs = append(vs, L(I(int(it.Idx)), Bytes(it.Text)))
	}
	return L(vs...)
}

func c12Params(cs c12Case, action string) Val {
	delim := L()
	if cs.Delim != nil {
		delim = L(Bytes(*cs.Delim))
	}
	cur := []c12Item{}
	if cs.Cur != nil {
		cur = append(cur, *cs.Cur)
	}
	return L(delim, Bytes(cs.Printsep), B(cs.ForcePlus), Bytes(cs.Query), c12Items(cur), c12Items(cs.Sel),
		Bytes(action), Bytes(cs.Prompt), B(c12IsFish(cs)))
}

func c12HasMeta(s string) bool {
	return strings.ContainsAny(s, "'\\\"$`;&|<>()*?[]{}~#! \t\n")
}

// the line handed to a real shell must contain no NUL (cannot be passed in argv); inputs never contain one
func c12Printf(line string) string { return "printf '%s\\0' " + c12Sentinel + " " + line }

// check D on one line: where the shell model answers, the real shells must agree
func (s *c12State) shellModelCheck(cs c12Case, line string) {
	if strings.Contains(line, "\x00") {
		return
	}
	ws, ok := s.shWords(line)
	if !ok {
		s.c.Rep.Count("sh_words=None")
		return
	}
	s.c.Rep.Count("sh_words=Some")
	s.shellJob(c12ShellJob{cs: cs, snippet: c12Printf(line), want: ws, kind: "corr", name: "corr:C12.sh_words_vs_shell"})
}

func c12WithShell(fish bool) string {
	if fish {
		return "fish -c"
	}
	return "sh -c"
}

// words a placeholder stands for, from the property text alone; ok=false when the harness has no independent reading
func c12Meaning(cs c12Case, ph string) ([]string, bool) {
	items := func(plus bool) []c12Item {
		if plus || cs.ForcePlus {
			return cs.Sel
		}
		if cs.Cur != nil {
			return []c12Item{*cs.Cur}
		}
		return nil
	}
	texts := func(its []c12Item) []string {
		r := []string{}
		for _, it := range its {
			r = append(r, it.Text)
		}
		return r
	}
	ords := func(its []c12Item) []string {
		r := []string{}
		for _, it := range its {
			r = append(r, strconv.Itoa(int(it.Idx)))
		}
		return r
	}
	switch ph {
	case "{}", "{s}":
		return texts(items(false)), true
	case "{+}", "{+s}", "{s+}":
		return texts(items(true)), true
	case "{q}", "{fzf:query}":
		return []string{cs.Query}, true
	case "{fzf:prompt}":
		return []string{cs.Prompt}, true
	case "{n}":
		return ords(items(false)), true
	case "{+n}":
		return ords(items(true)), true
	}
	return nil, false
}

func c12Seg(lit bool, text string, words []string) Val {
	if lit {
		return L(I(0), Bytes(text))
	}
	return L(I(1), Strs(words))
}

func (s *c12State) checkTemplate(cs c12Case) {
	c, rep := s.c, s.c.Rep
	var cur *fzf.VerifItem
	if cs.Cur != nil {
		cur = &fzf.VerifItem{Index: cs.Cur.Idx, Text: cs.Cur.Text}
	}
	sel := []fzf.VerifItem{}
	for _, it := range cs.Sel {
		sel = append(sel, fzf.VerifItem{Index: it.Idx, Text: it.Text})
	}
	var out, action string
	var temps []string
	pan := ""
	envShell, withShell := cs.shellPair()
	fish := s.dialect(envShell, withShell).fish // the dialect of the shell that RUNS the command (Coq spec)
	func() {
		defer func() {
			if r := recover(); r != nil {
				pan = fmt.Sprint(r)
			}
		}()
		c12UnderShell(envShell, func() {
			out, temps, action = fzf.VerifReplacePlaceholder(cs.Template, cs.Delim, cs.Printsep, cs.ForcePlus, cs.Query, cur, sel, cs.Prompt, withShell)
		})
	}()
	rep.ImplTraces++
	if pan != "" {
		rep.Disagreement(Disagreement{Kind: "spec", Name: "no_crash", Input: cs, Impl: "panic: " + pan, Expect: "no panic"})
		return
	}
	read := c12FileReader(out, temps)
	files := []string{}
	for _, t := range temps {
		b, _ := read(t)
		files = append(files, b)
	}
	// corr: model == impl on the command line and the temp-file contents
	mv := c.Model.Call(1201, L(c12Params(cs, action), Bytes(cs.Template), Strs(temps)))
	implV := L(Bytes(out), Strs(files))
	if !mv.Equal(implV) {
		exp := mv.String()
		if mv.IsList && len(mv.L) == 2 {
			exp = fmt.Sprintf("%q files %q", mv.L[0].Str(), mv.L[1].String())
		}
		s.corr(Disagreement{Kind: "corr", Name: "corr:C12.replace_placeholder", Input: cs,
			Impl: fmt.Sprintf("%q files %q", out, files), Expect: exp})
	}
	key, _ := json.Marshal(cs)
	nontrivial := false
	if cs.Kind == "tpl" && !fish {
		nontrivial = s.specExpansion(cs, cs, out, temps, action, read)
	} else if !fish {
		s.shellModelCheck(cs, out)
	} else if cs.Kind == "tpl" {
		s.fishExpansion(cs, cs, out)
	}
	rep.Eval(string(key), nontrivial)
	rep.Sample(cs)
	rep.Count("kind=" + cs.Kind)
	s.countShells(cs)
	if cs.Delim == nil {
		rep.Count("delim=awk")
	} else {
		rep.Count("delim=string")
	}
	rep.Count(fmt.Sprintf("selected=%d", len(cs.Sel)))
	if len(temps) > 0 {
		rep.Count("with_temp_file")
	}
}

// names of temp files as fzf makes them (os.CreateTemp("", "fzf-temp-*") under $TMPDIR)
func c12TempNames(out string) []string {
	dir := os.Getenv("TMPDIR")
	if dir == "" {
		dir = os.TempDir()
	}
	return regexp.MustCompile(regexp.QuoteMeta(strings.TrimRight(dir, "/"))+"/fzf-temp-[0-9]+").FindAllString(out, -1)
}

// c12FileReader reads every temp file the command line names or the implementation reported, removes them, and
// returns a lookup by name
func c12FileReader(out string, temps []string) func(string) (string, bool) {
	m := map[string]string{}
	for _, n := range append(append([]string{}, temps...), c12TempNames(out)...) {
		if _, seen := m[n]; seen {
			continue
		}
		if b, err := os.ReadFile(n); err == nil {
			m[n] = string(b)
		}
	}
	for n := range m {
		os.Remove(n)
	}
	return func(n string) (string, bool) { b, ok := m[n]; return b, ok }
}

// what the file of an f-placeholder over whole items ({f} {+f} {nf} {+nf} {fn} {+sf} ...) must hold, read off the
// property text: the items the placeholder ranges over, as texts or ordinals; ok=false: no independent reading
func c12FileMeaning(eff c12Case, ph string) ([]string, bool) {
	if len(ph) < 3 || ph[0] != '{' || ph[len(ph)-1] != '}' {
		return nil, false
	}
	in := ph[1 : len(ph)-1]
	if strings.Trim(in, "+sfrn") != "" || !strings.Contains(in, "f") {
		return nil, false
	}
	its := []c12Item{}
	if strings.Contains(in, "+") || eff.ForcePlus {
		its = eff.Sel
	} else if eff.Cur != nil {
		its = []c12Item{*eff.Cur}
	}
	vals := []string{}
	for _, it := range its {
		if strings.Contains(in, "n") {
			if it.Idx == -2147483648 {
				return nil, false
			}
			vals = append(vals, strconv.Itoa(int(it.Idx)))
		} else {
			vals = append(vals, it.Text)
		}
	}
	return vals, true
}

// c12Segments: the template of eff read piece by piece: literal text, or the words a placeholder stands for.
// names: the temp-file names found in the command line, in order (one per f-placeholder).
type c12Segs struct {
	segs       []Val
	onlyLitEsc bool
	expectOut  string
	quotedMeta bool
	fileWant   []string // expected content per f-placeholder, in template order
	filePh     []string
	fileSeg    []int // index in segs of each f-placeholder
	ambiguous  bool // an f-placeholder is directly followed by text that may start with a digit: its name cannot be cut out reliably
	known      bool // false: some placeholder has no reading
}

func (s *c12State) segments(cs, eff c12Case, action string, names []string, temps []string) c12Segs {
	c := s.c
	r := c12Segs{onlyLitEsc: true, known: true}
	params := c12Params(eff, action)
	for i, p := range eff.Parts {
		switch p.T {
		case "lit", "esc":
			r.segs = append(r.segs, c12Seg(true, p.S, nil))
			r.expectOut += p.S
			continue
		}
		r.onlyLitEsc = false
		if ws, ok := c12Meaning(eff, p.S); ok {
			r.segs = append(r.segs, c12Seg(false, "", ws))
			for _, w := range ws {
				r.quotedMeta = r.quotedMeta || c12HasMeta(w)
			}
			continue
		}
		// an f-placeholder?  (own_files: the files this placeholder writes when expanded on its own)
		fv := c.Model.Call(1212, L(params, Bytes(p.S)))
		if fv.IsList && len(fv.L) == 1 && fv.L[0].IsList {
			want := fv.L[0].Str()
			if vals, ok := c12FileMeaning(eff, p.S); ok {
				own := c.Model.Call(1214, L(Bytes(eff.Printsep), Strs(vals))).Str() // spec file_text
				if own != want {
					s.corr(Disagreement{Kind: "corr", Name: "corr:C12.file_meaning", Input: cs, Impl: want, Expect: own})
				}
				want = own
			}
			r.fileSeg = append(r.fileSeg, len(r.segs))
			r.fileWant = append(r.fileWant, want)
			r.filePh = append(r.filePh, p.S)
			if i+1 < len(eff.Parts) {
				n := eff.Parts[i+1]
				if n.T == "ph" || (n.T == "lit" && n.S != "" && n.S[0] >= '0' && n.S[0] <= '9') {
					r.ambiguous = true
				}
			}
			r.segs = append(r.segs, c12Seg(true, "?", nil))
			continue
		}
		// fields, {q:N}, raw, action, invalid ranges: the value comes from the model (field selection itself is C10's
		// subject); the round trip of that value is still checked here
		sv := c.Model.Call(1204, L(params, Bytes(p.S), Strs([]string{"?"})))
		if !sv.IsList || len(sv.L) != 1 || !sv.L[0].IsList || len(sv.L[0].L) != 2 {
			r.known = false
			return r
		}
		o := sv.L[0]
		if o.L[0].I == 0 {
			r.segs = append(r.segs, c12Seg(true, o.L[1].Str(), nil))
		} else {
			ws := []string{}
			for _, ev := range o.L[1].L {
				ws = append(ws, ev.L[1].Str())
				r.quotedMeta = r.quotedMeta || c12HasMeta(ev.L[1].Str())
			}
			r.segs = append(r.segs, c12Seg(false, "", ws))
		}
	}
	// the name each f-placeholder became: cut out of the command line; when a name is glued to text that may start
	// with a digit, the names the implementation reported, in order
	if r.ambiguous {
		names = temps
	}
	for k, i := range r.fileSeg {
		if k < len(names) {
			r.segs[i] = c12Seg(true, names[k], nil)
		}
	}
	return r
}

// specExpansion: the property on one expansion.  cs is the case as generated (what a replay needs), eff the same
// case with the items the placeholders range over (cur, sel) made explicit; out is the implementation's command
// line, read gives the content of the temp files it names.
func (s *c12State) specExpansion(cs, eff c12Case, out string, temps []string, action string, read func(string) (string, bool)) bool {
	c, rep := s.c, s.c.Rep
	names := c12TempNames(out)
	sg := s.segments(cs, eff, action, names, temps)
	if sg.onlyLitEsc {
		rep.SpecChecks++
		rep.Count("escaped_literal_checks")
		if out != sg.expectOut {
			rep.Disagreement(Disagreement{Kind: "spec", Name: "escaped_literal", Input: cs, Impl: out, Expect: sg.expectOut})
		}
	}
	if !sg.known {
		return false
	}
	// every f-placeholder names a file that holds its own values
	if len(sg.fileWant) > 0 {
		if sg.ambiguous {
			rep.Count("file_checks_skipped(name glued to following text)")
		} else if len(names) != len(sg.fileWant) {
			rep.SpecChecks++
			rep.Disagreement(Disagreement{Kind: "spec", Name: "file_holds_own_values", Input: cs,
				Impl:   fmt.Sprintf("command %q names %d temp files", out, len(names)),
				Expect: fmt.Sprintf("%d f-placeholders %q, one file each", len(sg.fileWant), sg.filePh)})
		} else {
			for k, want := range sg.fileWant {
				rep.SpecChecks++
				rep.Count("file_content_checks")
				got, ok := read(names[k])
				if !ok || got != want {
					impl := fmt.Sprintf("%s names %s which holds %q", sg.filePh[k], names[k], got)
					if !ok {
						impl = fmt.Sprintf("%s names %s which cannot be read", sg.filePh[k], names[k])
					}
					rep.Disagreement(Disagreement{Kind: "spec", Name: "file_holds_own_values", Input: cs, Impl: impl,
						Expect: fmt.Sprintf("%s: a file holding %q", sg.filePh[k], want)})
					break
				}
			}
		}
	}
	want, ok := c12OptWords(c.Model.Call(1203, L(sg.segs...)))
	if !ok {
		rep.Count("template_not_neutral")
		s.shellModelCheck(cs, out)
		return false
	}
	rep.SpecChecks++
	rep.Count("roundtrip_checks")
	got, gok := s.shWords(out)
	if !gok || !c12SameWords(got, want) {
		var impl interface{} = got
		if !gok {
			impl = fmt.Sprintf("command %q is not made of plain shell words (sh_words = None)", out)
		}
		s.specOrCorr(cs, "expansion_roundtrip", c12Printf(out), impl, want)
		return false
	}
	for _, w := range want {
		for i := 0; i < len(w); i++ {
			s.bytesSeen[w[i]] = true
		}
	}
	s.shellJob(c12ShellJob{cs: cs, snippet: c12Printf(out), want: want, kind: "spec", name: "shell_roundtrip"})
	return sg.quotedMeta
}

func (s *c12State) checkTmux(cs c12Case) {
	c, rep := s.c, s.c.Rep
	if len(cs.Args) == 0 {
		return
	}
	// runTmux: argStr := escapeSingleQuote(fzf); for each arg: argStr += " " + escapeSingleQuote(arg); argStr += ` --no-tmux --no-height`
	argStr := fzf.VerifEscapeSingleQuote(cs.Args[0])
	for _, a := range cs.Args[1:] {
		argStr += " " + fzf.VerifEscapeSingleQuote(a)
	}
	argStr += ` --no-tmux --no-height`
	rep.ImplTraces++
	mv := c.Model.Call(1207, L(Bytes(cs.Args[0]), Strs(cs.Args[1:])))
	if mv.Str() != argStr {
		s.corr(Disagreement{Kind: "corr", Name: "corr:C12.tmux_arg_str", Input: cs, Impl: argStr, Expect: mv.Str()})
	}
	want := append(append([]string{}, cs.Args...), "--no-tmux", "--no-height")
	rep.SpecChecks++
	got, ok := s.shWords(argStr)
	meta := false
	for _, a := range cs.Args {
		meta = meta || c12HasMeta(a)
	}
	if !ok || !c12SameWords(got, want) {
		s.specOrCorr(cs, "tmux_args_roundtrip", c12Printf(argStr), got, want)
	} else {
		s.shellJob(c12ShellJob{cs: cs, snippet: c12Printf(argStr), want: want, kind: "spec", name: "shell_tmux_args_roundtrip"})
	}
	key, _ := json.Marshal(cs)
	rep.Eval(string(key), meta)
	rep.Count("kind=tmux")
}

func c12EnvSnippet(line, name string) string {
	return line + "\nprintf '%s\\0' " + c12Sentinel + " \"$" + name + "\""
}

func (s *c12State) checkEnv(cs c12Case) {
	c, rep := s.c, s.c.Rep
	line := fmt.Sprintf("export %s=%s", cs.Name, fzf.VerifEscapeSingleQuote(cs.Value)) // runProxy
	rep.ImplTraces++
	mv := c.Model.Call(1208, L(Bytes(cs.Name), Bytes(cs.Value)))
	if mv.Str() != line {
		s.corr(Disagreement{Kind: "corr", Name: "corr:C12.export_line", Input: cs, Impl: line, Expect: mv.Str()})
	}
	want := []string{"export", cs.Name + "=" + cs.Value}
	rep.SpecChecks++
	got, ok := s.shWords(line)
	if !ok || !c12SameWords(got, want) {
		s.specOrCorr(cs, "env_export_roundtrip", c12EnvSnippet(line, cs.Name), got, []string{cs.Value})
	} else {
		// the real thing: export in a real shell, then read the variable back
		s.shellJob(c12ShellJob{cs: cs, snippet: c12EnvSnippet(line, cs.Name), want: []string{cs.Value},
			kind: "spec", name: "shell_env_export_roundtrip"})
	}
	key, _ := json.Marshal(cs)
	rep.Eval(string(key), c12HasMeta(cs.Value))
	rep.Count("kind=env")
}

func (s *c12State) check(cs c12Case) {
	switch cs.Kind {
	case "tpl", "raw":
		s.checkTemplate(cs)
	case "term":
		s.checkTerm(cs)
	case "live":
		s.liveOne(cs, nil)
	case "quote":
		s.checkQuote(cs)
	case "relaunch":
		s.relaunchOne(cs, nil)
	case "tmux":
		s.checkTmux(cs)
	case "env":
		s.checkEnv(cs)
	case "line":
		s.shellModelCheck(cs, cs.Line)
		key, _ := json.Marshal(cs)
		s.c.Rep.Eval(string(key), false)
		s.c.Rep.Count("kind=line")
	}
}

// ---- generators ----

var c12Multi = []string{"é", "日本", "\u00a0", "\u2028", "\u3000", "\u0085", "😀", "ü", "\u2003", "ß"}
var c12Hot = []string{"'", "'", "'", "\\", "\\", "\"", "$", "`", " ", " ", "\n", "\t", ";", "&", "|", "*", "?", "{", "}", "~", "#", "!", "(", ")", "<", ">", "-", "=", "$(id)", "`id`", "'\\''", "\\'", "''", "$HOME", "\r", "[", "]", "%", ","}

// text over every ASCII byte 1..127 and multi-byte runes; n counts generated cases so that byte (n mod 127)+1 is always present once
func c12Text(r *RNG, n int, maxLen int) string {
	var b strings.Builder
	l := r.Range(0, maxLen)
	if r.Chance(1, 10) {
		l = 0
	}
	forced := r.Intn(l + 1)
	for i := 0; i <= l; i++ {
		if i == forced && n >= 0 {
			b.WriteByte(byte(n%127 + 1))
		}
		if i == l {
			break
		}
		switch r.Intn(10) {
		case 0, 1, 2:
			b.WriteString(Pick(r, c12Hot))
		case 3:
			b.WriteString(Pick(r, c12Multi))
		case 4:
			b.WriteByte(byte(r.Range(1, 127)))
		case 5:
			b.WriteByte(' ')
		default:
			b.WriteByte(c12TextChars[r.Intn(len(c12TextChars))])
		}
	}
	if r.Chance(1, 12) {
		return "-" + b.String()
	}
	return b.String()
}

var c12KnownPh = []string{"{}", "{}", "{}", "{+}", "{+}", "{q}", "{q}", "{n}", "{+n}", "{fzf:query}", "{fzf:prompt}", "{s}", "{+s}"}
var c12FieldPh = []string{"{1}", "{2}", "{3}", "{-1}", "{-2}", "{1..2}", "{2..}", "{..-2}", "{..2}", "{..}", "{+1}", "{+2..}", "{s1}", "{+s2..}", "{s..-1}",
	"{1,3}", "{2,1}", "{-1,1}", "{+1,2}", "{q:1}", "{q:2..}", "{q:s1}", "{q:s..}", "{q:-1}", "{q:1,2}", "{2..3}", "{-2..-1}", "{1..1}", "{4}", "{1..-1}", "{-1..}"}
var c12OtherPh = []string{"{r}", "{+r}", "{r1}", "{+r2..}", "{sr1}", "{f}", "{+f}", "{fn}", "{+nf}", "{+fnf}", "{nf}", "{f1}", "{+f2}", "{fzf:action}",
	"{0}", "{1..0}", "{,}", "{-}", "{.}", "{...}", "{-1..2}", "{99999999999999999999}", "{q:0}", "{q:1..0}", "{+,}", "{s-}", "{1,}", "{+sfr}", "{fr}", "{1....2}", "{1...2}", "{+9223372036854775808}", "{-0}", "{+0..1}"}

// shell-neutral literal text: words, blanks, balanced '...' chunks, \c escapes; no braces, never ends in a bare backslash
func c12Lit(r *RNG) string {
	var b strings.Builder
	n := r.Range(1, 4)
	for i := 0; i < n; i++ {
		switch r.Intn(8) {
		case 0:
			b.WriteString("'")
			k := r.Range(0, 4)
			for j := 0; j < k; j++ {
				b.WriteString(Pick(r, []string{"a", " ", "$", "\"", "\\", ";", "\n", "*", "é", "|", "b c"}))
			}
			b.WriteString("'")
		case 1:
			b.WriteString("\\" + Pick(r, []string{"a", " ", "$", "'", "\\", ";", "\"", "*", "é", "&"}))
		case 2, 3:
			b.WriteString(" ")
		default:
			k := r.Range(1, 5)
			for j := 0; j < k; j++ {
				b.WriteByte(c12WordChars[r.Intn(len(c12WordChars))])
			}
		}
	}
	if strings.HasSuffix(b.String(), "\\") {
		b.WriteString("a") // a literal must not end in a backslash: fzf would read it as escaping the next placeholder
	}
	return b.String()
}

func c12GenItem(r *RNG, n int) c12Item {
	idx := int32(r.Range(0, 40))
	switch r.Intn(12) {
	case 0:
		idx = 2147483647
	case 1:
		idx = int32(r.Range(1000, 99999999))
	case 2:
		idx = 0
	}
	text := c12Text(r, n, 10)
	if r.Chance(1, 3) { // several fields
		k := r.Range(2, 4)
		ps := []string{}
		for i := 0; i < k; i++ {
			ps = append(ps, c12Text(r, -1, 4))
		}
		text = strings.Join(ps, Pick(r, []string{" ", "  ", "\t", ",", ":", " , "}))
		if r.Bool() {
			text = " " + text
		}
		if r.Bool() {
			text += Pick(r, []string{" ", ",", "\n", " "})
		}
	}
	return c12Item{Idx: idx, Text: text}
}

func c12GenParams(r *RNG, n int, cs *c12Case) {
	if r.Chance(1, 3) {
		d := Pick(r, []string{",", ":", "'", " ", "\t", "--", "é", "\\", ", ", "a", "$"})
		cs.Delim = &d
	}
	cs.Printsep = Pick(r, []string{"\n", "\n", "\x00", ", ", ""})
	cs.ForcePlus = r.Chance(1, 8)
	cs.Query = c12Text(r, n, 8)
	if r.Chance(1, 4) {
		cs.Query = c12Text(r, -1, 3) + " " + c12Text(r, -1, 3) + "  " + c12Text(r, -1, 3)
	}
	if !r.Chance(1, 10) {
		it := c12GenItem(r, n)
		cs.Cur = &it
	}
	ns := Pick(r, []int{0, 1, 1, 2, 3, 4, 5})
	for i := 0; i < ns; i++ {
		cs.Sel = append(cs.Sel, c12GenItem(r, n+i))
	}
	cs.Prompt = Pick(r, []string{"> ", "prompt", "it's> ", "$ ", "", "a\\b "})
	cs.Fish = r.Chance(1, 12)
	if r.Chance(1, 3) { // $SHELL and --with-shell, independently
		c12GenShells(r, cs)
	}
}

func c12GenTpl(r *RNG, n int) c12Case {
	cs := c12Case{Kind: "tpl"}
	c12GenParams(r, n, &cs)
	np := r.Range(1, 5)
	onlyEsc := r.Chance(1, 10)
	prevLit := false
	if r.Chance(1, 5) { // several placeholders over the same range that differ only in their flags
		cs.Parts = c12FamilyParts(r)
		np = 0
	} else if cs.WithShell != nil && r.Bool() { // quoted placeholders separated by blanks: readable in either dialect
		for i := r.Range(1, 4); i > 0; i-- {
			cs.Parts = append(cs.Parts, c12Part{"ph", Pick(r, []string{"{}", "{}", "{+}", "{+}", "{q}", "{s}", "{+s}", "{fzf:query}", "{fzf:prompt}"})})
			if i > 1 {
				cs.Parts = append(cs.Parts, c12Part{"lit", Pick(r, []string{" ", " ", "  "})})
			}
		}
		np = 0
	}
	for i := 0; i < np; i++ {
		k := r.Intn(10)
		switch {
		case k < 4 && !prevLit:
			cs.Parts = append(cs.Parts, c12Part{"lit", c12Lit(r)})
			prevLit = true
			continue
		case k == 4 || onlyEsc:
			cs.Parts = append(cs.Parts, c12Part{"esc", Pick(r, [][]string{c12KnownPh, c12FieldPh, c12OtherPh}[r.Intn(3)])})
		case k < 8:
			cs.Parts = append(cs.Parts, c12Part{"ph", Pick(r, c12KnownPh)})
		case k == 8:
			cs.Parts = append(cs.Parts, c12Part{"ph", Pick(r, c12FieldPh)})
		default:
			if r.Bool() {
				cs.Parts = append(cs.Parts, c12Part{"ph", Pick(r, c12FieldPh)})
			} else {
				cs.Parts = append(cs.Parts, c12Part{"ph", Pick(r, c12OtherPh)})
			}
		}
		prevLit = false
		if r.Bool() {
			cs.Parts = append(cs.Parts, c12Part{"lit", " "})
			prevLit = true
		}
	}
	for _, p := range cs.Parts {
		if p.T == "esc" {
			cs.Template += "\\"
		}
		cs.Template += p.S
	}
	return cs
}

// unstructured templates: anything, rich in what the scanner looks at (model-vs-impl only)
func c12GenRaw(r *RNG, n int) c12Case {
	cs := c12Case{Kind: "raw"}
	c12GenParams(r, n, &cs)
	if r.Chance(1, 6) && cs.Cur != nil {
		cs.Cur.Idx = -2147483648 // minItem.Index()
	}
	atoms := []string{"{", "}", "{", "}", "\\", "+", "s", "f", "r", "n", "q", ":", "0", "1", "2", "9", ",", "-", ".", "..", "fzf:", "query", "action", "prompt",
		"{}", "{+}", "{q}", "{q:", "{fzf:query}", "{n}", "'", "\"", " ", "echo", "$", "x", "\n", "é", "{+f", "nf}", "{1..", "3}", "\\{", "{fzf:", "{s"}
	k := r.Range(1, 14)
	for i := 0; i < k; i++ {
		cs.Template += Pick(r, atoms)
	}
	if r.Chance(1, 5) {
		cs.Template = c12Text(r, n, 12)
	}
	return cs
}

func c12GenLine(r *RNG, n int) c12Case {
	var b strings.Builder
	if r.Chance(2, 3) {
		// mostly well-formed: words, blanks, '...' chunks with anything inside, \c escapes; sometimes one stray character
		k := r.Range(0, 8)
		for i := 0; i < k; i++ {
			switch r.Intn(6) {
			case 0:
				b.WriteString("'" + strings.ReplaceAll(c12Text(r, n, 6), "'", "") + "'")
			case 1:
				c := byte(r.Range(1, 127))
				if c == '\n' {
					c = 'n'
				}
				b.WriteString("\\" + string(rune(c)))
			case 2, 3:
				b.WriteString(" ")
			default:
				for j := r.Range(1, 4); j > 0; j-- {
					b.WriteByte(c12WordChars[r.Intn(len(c12WordChars))])
				}
			}
		}
		if r.Chance(1, 5) {
			b.WriteString(Pick(r, []string{"'", "\\", "\t", "\n", "\r", "\x7f", "\x01", "é"}))
		}
		return c12Case{Kind: "line", Line: b.String()}
	}
	k := r.Range(0, 14)
	for i := 0; i < k; i++ {
		switch r.Intn(12) {
		case 0, 1:
			b.WriteString("'")
		case 2, 3:
			b.WriteString("\\")
		case 4, 5:
			b.WriteString(" ")
		case 6:
			b.WriteString(Pick(r, c12Hot))
		case 7:
			b.WriteString(Pick(r, c12Multi))
		case 8:
			b.WriteByte(byte(r.Range(1, 127)))
		default:
			b.WriteByte(c12WordChars[r.Intn(len(c12WordChars))])
		}
	}
	return c12Case{Kind: "line", Line: b.String()}
}

func c12Gen(r *RNG, n int) c12Case {
	switch k := r.Intn(27); {
	case k >= 25:
		return c12GenQuote(r, n)
	case k < 11:
		return c12GenTpl(r, n)
	case k < 14:
		return c12GenRaw(r, n)
	case k >= 20:
		return c12GenTerm(r, n)
	case k < 16:
		cs := c12Case{Kind: "tmux"}
		na := r.Range(1, 6)
		for i := 0; i < na; i++ {
			switch r.Intn(6) {
			case 0:
				cs.Args = append(cs.Args, "") // an empty argument must survive as an empty word
			case 1:
				cs.Args = append(cs.Args, Pick(r, []string{"--query", "--prompt", "abc", "a.b-c_d", "x=y", "50%", "+s", "@home", "a,b:c/d"})) // shell-inert words
			default:
				cs.Args = append(cs.Args, c12Text(r, n+i, 8))
			}
		}
		if r.Bool() {
			cs.Args = append(cs.Args, Pick(r, []string{"--preview=cat {}", "--bind=ctrl-a:execute(echo 'x')", "--prompt=it's> ", "-q", "--header=$(id)"}))
		}
		return cs
	case k < 18:
		name := Pick(r, []string{"V", "V_a", "_x1", "FZF_VERIF_TEST", "v9_"})
		if r.Chance(1, 6) {
			return c12Case{Kind: "env", Name: name, Value: Pick(r, []string{"", "plain", "a.b-c", "x=y"})}
		}
		return c12Case{Kind: "env", Name: name, Value: c12Text(r, n, 12)}
	default:
		return c12GenLine(r, n)
	}
}

func runC12(c *Ctx) {
	c.Rep.Rule = "templates built from shell-neutral literal text, live and escaped placeholders of every form and flag, incl. several placeholders over one range that differ only in their flags (f-placeholders: the file each one names holds its own values); item texts / queries over every ASCII byte 1..127, shell metacharacters, newlines, multi-byte runes, 0..5 selected items; the finder level (kind term: list, cursor position, selection order with 0, 1, 2.. selected items and the cursor on or off the selection, through buildPlusList; kind live: the fzf binary on a pty, random toggle / move / select-all sequences, then one command through execute-silent, execute, execute-multi, transform-header, preview, change-preview, reload or become, argv and temp files read back from the real shell); $SHELL and --with-shell chosen independently for every expansion (fish / POSIX / unset login shell x fish / POSIX / no --with-shell; path names whose directory or suffix merely looks like fish), the dialect judged being the one of the shell that runs the command; kind quote: QuoteEntry under such a pair on hostile strings; tmux argument and export re-quoting; kind relaunch: the fzf binary run as fzf --tmux through a stand-in tmux that runs the re-launch script with an empty environment, command lines with hostile option values (incl. empty ones) and environments with hostile values (further = signs, quotes, $, backticks, backslashes, newlines, empty; LS_COLORS-like; FZF_DEFAULT_*; names a shell cannot hold; exported bash functions), argv and environment read where the re-launched fzf stands; the finder's view of a line (kinds term and live with --ansi, --with-nth, colours switched off by --no-color / --color=bw / $NO_COLOR or another theme, 0-3 further display options, lines with complete control sequences - SGR, 256 and 24-bit colours, erase-in-line, OSC 8 links, charset selection, SO / SI - in hidden and shown fields): placeholders stand for item_text of the line; non-trivial = a quoted value containing a shell metacharacter whose expansion passed the Coq spec and was handed to dash and bash (or came back from the shell fzf started); distinct by JSON of the case"
	os.Setenv("TMPDIR", c.Work)
	c12ShellDir = c.Work
	st := &c12State{c: c, shells: []string{"/bin/sh", "bash"}, corrSeen: map[string]int{}, dialects: map[string]c12Dialect{}}
	c12Cur = st
	if _, err := exec.LookPath("bash"); err != nil {
		st.shells = []string{"/bin/sh"}
		c.Rep.Count("bash-missing")
	}
	if c.Replay != "" {
		st.now = true
		var cs c12Case
		b, err := os.ReadFile(c.Replay)
		if err == nil {
			var w struct{ Input c12Case }
			if json.Unmarshal(b, &w) == nil && w.Input.Kind != "" {
				cs = w.Input
			} else {
				json.Unmarshal(b, &cs)
			}
		}
		st.check(cs)
		return
	}
	for _, f := range corpusFiles(c) {
		var cs c12Case
		b, _ := os.ReadFile(f)
		if json.Unmarshal(b, &cs) == nil && cs.Kind != "" {
			st.now = true
			st.check(cs)
			st.now = false
			c.Rep.Count("corpus")
		}
	}
	t0 := time.Now()
	n := c.N(7500, 187500)
	for i := 0; i < n; i++ {
		st.check(c12Gen(c.Rng, i))
	}
	// how the finder looks at a line (--ansi, --with-nth, colours on or off) must not change what a placeholder stands for
	nt := c.N(900, 22500)
	for i := 0; i < nt; i++ {
		st.check(c12GenTermView(c.Rng, i))
	}
	st.flush()
	c.Rep.Extra["generated_cases_wall_s"] = time.Since(t0).Seconds()
	t0 = time.Now()
	// the running finder: the fzf binary on a pty
	scale := c.Scale
	if scale > 4 {
		scale = 4
	}
	nl := 600 * scale
	if c.Thorough() {
		nl = 4000 * scale
	}
	live := make([]c12Case, nl)
	for i := range live {
		live[i] = c12GenLive(c.Rng, i)
	}
	if c.Fzf != "" {
		st.runLiveBatch(live)
	} else {
		c.Rep.Count("live:no_fzf_binary")
	}
	c.Rep.Extra["live_sessions_wall_s"] = time.Since(t0).Seconds()
	t0 = time.Now()
	// the re-launch inside tmux: fzf --tmux through a stand-in tmux
	nr := 320 * scale
	if c.Thorough() {
		nr = 4000 * scale
	}
	rl := make([]c12Case, nr)
	for i := range rl {
		rl[i] = c12GenRelaunch(c.Rng, i)
	}
	if c.Fzf != "" {
		st.runRelaunchBatch(rl)
	} else {
		c.Rep.Count("relaunch:no_fzf_binary")
	}
	c.Rep.Extra["relaunch_runs_wall_s"] = time.Since(t0).Seconds()
	t0 = time.Now()
	// the running finder started with --ansi / --with-nth / colour and other display options, lines with control sequences
	nv := 320 * scale
	if c.Thorough() {
		nv = 2400 * scale
	}
	lv := make([]c12Case, nv)
	for i := range lv {
		lv[i] = c12GenLiveView(c.Rng, i)
	}
	if c.Fzf != "" {
		st.runLiveBatch(lv)
	}
	c.Rep.Extra["live_view_sessions_wall_s"] = time.Since(t0).Seconds()
	nb := func(a *[256]bool) int {
		k := 0
		for b := 1; b < 256; b++ {
			if a[b] {
				k++
			}
		}
		return k
	}
	c.Rep.Extra["bytes_seen_in_fish_round_tripped_words"] = nb(&st.fishBytes)
	c.Rep.Extra["bytes_seen_in_environment_values_that_arrived_unchanged"] = nb(&st.envBytes)
	c.Rep.Extra["shells"] = st.shells
	ascii, high := 0, 0
	for b := 1; b < 256; b++ {
		if st.bytesSeen[b] {
			if b < 128 {
				ascii++
			} else {
				high++
			}
		}
	}
	c.Rep.Extra["ascii_bytes_1_127_seen_in_round_tripped_words"] = ascii
	c.Rep.Extra["bytes_128_255_seen_in_round_tripped_words"] = high
}

func init() { runners["C12"] = runC12 }
