package main

// Shared engine for C02 (witness / completeness / no crash), C03 (scores), C05 (purity).

import (
	"encoding/json"
	"fmt"
	"os"
	"sort"
	"sync"
	"unicode"

	"github.com/junegunn/fzf/src/algo"
	"github.com/junegunn/fzf/src/util"
)

type algoCase struct {
	Fn      int    `json:"fn"` // 1 v1 2 v2 3 exact 4 boundary 5 prefix 6 suffix 7 equal
	CS      bool   `json:"cs"`
	NM      bool   `json:"nm"`
	Fwd     bool   `json:"fwd"`
	WithPos bool   `json:"withpos"`
	Scheme  int    `json:"scheme"` // 0 default 1 path 2 history
	Bytes   bool   `json:"bytes"`  // text held as bytes (only valid for ASCII text)
	Text    []int  `json:"text"`
	Pat     []int  `json:"pat"`
	Slab    string `json:"slab"` // nil | clean | dirty | tiny | small | hist
	SlabCap int    `json:"slabcap"`
}

var schemeNames = []string{"default", "path", "history"}
var algoMu sync.Mutex
var algoScheme = -1

// algo.Init does not reset initialCharClass/delimiterChars when going back from "path", so within one
// process schemes may only be visited in the order default(0) -> history(2) -> path(1).
var schemeOrder = []int{0, 2, 1}
var schemeRank = map[int]int{-1: -1, 0: 0, 2: 1, 1: 2}

func setScheme(s int) {
	if algoScheme != s {
		if schemeRank[s] < schemeRank[algoScheme] {
			panic("harness bug: scoring schemes must be visited in the order default, history, path")
		}
		algo.Init(schemeNames[s])
		algoScheme = s
	}
}

func toRunes(xs []int) []rune {
	r := make([]rune, len(xs))
	for i, x := range xs {
		r[i] = rune(x)
	}
	return r
}

func mkChars(text []int, bytes bool) util.Chars {
	if bytes {
		b := make([]byte, len(text))
		for i, x := range text {
			b[i] = byte(x)
		}
		return util.ToChars(b)
	}
	return util.RunesToChars(toRunes(text))
}

func isASCII(xs []int) bool {
	for _, x := range xs {
		if x >= 128 {
			return false
		}
	}
	return true
}

func mkSlab(kind string, capHint int, r *RNG) (*util.Slab, int) {
	switch kind {
	case "nil":
		return nil, -1
	case "clean":
		return util.MakeSlab(100*1024, 2048), 100 * 1024
	case "dirty", "hist":
		s := util.MakeSlab(100*1024, 2048)
		for i := range s.I16 {
			s.I16[i] = 0x7fff
		}
		for i := range s.I32 {
			s.I32[i] = 0x7fffffff
		}
		if kind == "hist" && r != nil {
			// residue of other matches on the same slab
			for k := 0; k < 1+r.Intn(6); k++ {
				t := genText(r, 5+r.Intn(40), false)
				p := genPat(r, t, 1+r.Intn(4))
				ch := mkChars(t, isASCII(t))
				algo.FuzzyMatchV2(false, false, true, &ch, toRunes(p), true, s)
			}
		}
		return s, 100 * 1024
	case "tiny", "small":
		s := util.MakeSlab(capHint, 8)
		for i := range s.I16 {
			s.I16[i] = -1
		}
		return s, capHint
	case "grown":
		// a slab of capHint cells that has already served a call whose N*M fits (so FuzzyMatchV2 takes the matrix
		// path) but whose five arrays do not (so the allocator has to hand out fresh memory): the slab itself --
		// and with it the N*M > cap(slab.I16) threshold that selects V1 or V2 -- must be what it was before.
		s := util.MakeSlab(capHint, 8)
		for i := range s.I16 {
			s.I16[i] = -1
		}
		if l := capHint / 2; l >= 2 {
			t := make([]int, l)
			for i := range t {
				t[i] = 'x'
			}
			t[0], t[l-1] = 'a', 'b'
			ch := mkChars(t, true)
			algo.FuzzyMatchV2(false, false, true, &ch, []rune("ab"), true, s)
		}
		return s, capHint
	}
	return nil, -1
}

var algoFns = []algo.Algo{nil, algo.FuzzyMatchV1, algo.FuzzyMatchV2, algo.ExactMatchNaive, algo.ExactMatchBoundary,
	algo.PrefixMatch, algo.SuffixMatch, algo.EqualMatch}

// algoImpl runs the implementation; answer encoded like the model's v_mres. Caller holds algoMu / scheme.
func algoImpl(cs algoCase, r *RNG) (ans Val, pan string) {
	defer func() {
		if e := recover(); e != nil {
			pan = fmt.Sprint(e)
		}
	}()
	chars := mkChars(cs.Text, cs.Bytes)
	slab, _ := mkSlab(cs.Slab, cs.SlabCap, r)
	res, pos := algoFns[cs.Fn](cs.CS, cs.NM, cs.Fwd, &chars, toRunes(cs.Pat), cs.WithPos, slab)
	if res.Start < 0 {
		return L(), ""
	}
	pv := I(-1)
	if pos != nil {
		pv = Ints(*pos)
	}
	return L(I(res.Start), I(res.End), I(res.Score), pv), ""
}

func opsTable(cs algoCase) Val {
	seen := map[rune]bool{}
	rows := []Val{}
	add := func(r rune) {
		if r < 128 || seen[r] {
			return
		}
		seen[r] = true
		sp := 0
		if unicode.IsSpace(r) {
			sp = 1
		}
		rows = append(rows, L(I(int(r)), I(int(unicode.To(unicode.LowerCase, r))), I(algo.VerifCharClassOfNonAscii(r)),
			I(int(algo.VerifNormalizeRune(r))), I(sp)))
	}
	for _, xs := range [][]int{cs.Text, cs.Pat} {
		for _, x := range xs {
			add(rune(x))
			add(unicode.To(unicode.LowerCase, rune(x)))
		}
	}
	return L(rows...)
}

func algoArg(cs algoCase) Val {
	cap := -1
	if cs.Slab != "nil" {
		cap = cs.SlabCap
		if cs.Slab == "clean" || cs.Slab == "dirty" || cs.Slab == "hist" {
			cap = 100 * 1024
		}
	}
	return L(I(cs.Fn), B(cs.CS), B(cs.NM), B(cs.Fwd), B(cs.Bytes), B(cs.WithPos), I(cap), I(cs.Scheme),
		Ints(cs.Text), Ints(cs.Pat), opsTable(cs))
}

// ---- generators ----

var alphaSmall = []int{'a', 'A', 'b', '_', ' ', 0xe9}
var alphaPat = []int{'a', 'b', '_', ' ', 0xe9}
var alphaWide = []int{'a', 'b', 'c', 'A', 'B', 'Z', 'z', '0', '9', '_', '-', '/', ',', ':', ' ', '\t', '\f', '\v', '.', 'x', 'y',
	0xe9, 0xc9, 0xe0, 0xf1, 0xbf, 0xc0, 0x2184, 0x2185, 0x3042, 0x4e2d, 0x1F600, 0x0301, 0xa0, 0x85, 0x2003, 0x130, 0x131, 0x1c5, 0x2160,
	// capitals whose lower-case form (only) is in the normalisation table, and table entries of both cases
	0x1ea0, 0x1ea1, 0x1ecc, 0x1ecd, 0x1ee4, 0x1ef2, 0x1ebc, 0xc5, 0xe5, 0x2c62, 0x26b, 0xd3, 0xf3, 0x1b0, 0x1af,
	0x3000, 0x1680, 0x2028}

// multi-byte white space: the trimming of the anchored matchers counts runes, the text may be held as bytes
var alphaSpace = []int{' ', '\t', '\v', '\f', '\r', '\n', 0xa0, 0x3000, 0x2003, 0x85, 0x1680, 0x2028}

func genText(r *RNG, n int, asciiOnly bool) []int {
	t := make([]int, n)
	for i := range t {
		for {
			t[i] = Pick(r, alphaWide)
			if !asciiOnly || t[i] < 128 {
				break
			}
		}
	}
	return t
}

// a pattern that is usually a (folded) subsequence of the text, sometimes perturbed
func genPat(r *RNG, text []int, m int) []int {
	p := []int{}
	if len(text) == 0 || r.Chance(1, 10) {
		for i := 0; i < m; i++ {
			p = append(p, Pick(r, alphaWide))
		}
		return p
	}
	contiguous := r.Chance(1, 3)
	i := r.Intn(len(text))
	for len(p) < m && i < len(text) {
		p = append(p, text[i])
		if contiguous {
			i++
		} else {
			i += 1 + r.Intn(3)
		}
	}
	if r.Chance(1, 8) && len(p) > 0 {
		p[r.Intn(len(p))] = Pick(r, alphaWide)
	}
	return p
}

func lowerPat(p []int, cs, nm bool) []int {
	// the contract of algo functions: pattern lower-cased when case-insensitive, normalised when nm
	out := make([]int, len(p))
	for i, x := range p {
		c := rune(x)
		if !cs {
			c = unicode.ToLower(c)
		}
		if nm {
			c = algo.VerifNormalizeRune(c)
		}
		out[i] = int(c)
	}
	return out
}

func algoKey(cs algoCase) string { b, _ := json.Marshal(cs); return string(b) }

// Finding K2: FuzzyMatchV2 with a one-character pattern scanning forward stops at the FIRST occurrence whose
// bonus is >= bonusBoundary instead of taking the maximum. The classifier accepts exactly that shape:
// the answer is the first occurrence with bonus >= 8 and some later occurrence has a larger bonus.
func k2Classifier(cs algoCase, ans Val) bool {
	if cs.Fn != 2 || len(cs.Pat) != 1 || !cs.Fwd || len(ans.L) < 3 {
		return false
	}
	prev := algo.VerifInitialCharClass()
	start := int(ans.L[0].I)
	for i, x := range cs.Text {
		r := rune(x)
		class := algo.VerifCharClassOf(r)
		f := r
		if !cs.CS {
			f = unicode.ToLower(f)
		}
		if cs.NM {
			f = algo.VerifNormalizeRune(f)
		}
		if int(f) == cs.Pat[0] && algo.VerifBonusMatrix(prev, class) >= 8 {
			return i == start && int(ans.L[2].I) == 16+2*algo.VerifBonusMatrix(prev, class)
		}
		prev = class
	}
	return false
}

type algoVerdict struct {
	Ans      Val
	Panic    string
	Codes    []int
	ModelAns Val
}

// evaluate one case: implementation, spec check on its answer, model answer
func algoEval(c *Ctx, cs algoCase, r *RNG, withModel bool) algoVerdict {
	algoMu.Lock()
	setScheme(cs.Scheme)
	ans, pan := algoImpl(cs, r)
	algoMu.Unlock()
	v := algoVerdict{Ans: ans, Panic: pan}
	if pan != "" {
		return v
	}
	arg := algoArg(cs)
	codes := c.Model.Call(202, L(arg, ans))
	v.Codes = codes.IntList()
	if withModel {
		v.ModelAns = c.Model.Call(201, arg)
	}
	return v
}

var codeNames = map[int]string{1: "range", 2: "positions_not_a_witness", 3: "positions_outside_range", 4: "nomatch_but_witness_exists",
	5: "occurrence_or_anchor_wrong", 6: "score_differs_from_documented_model", 7: "match_reported_but_none_exists"}

func hasCode(codes []int, set ...int) bool {
	for _, c := range codes {
		for _, s := range set {
			if c == s {
				return true
			}
		}
	}
	return false
}

func loadAlgoCases(path string) []algoCase {
	b, err := os.ReadFile(path)
	if err != nil {
		return nil
	}
	var w struct{ Input json.RawMessage }
	var one algoCase
	var many []algoCase
	if json.Unmarshal(b, &w) == nil && len(w.Input) > 0 {
		if json.Unmarshal(w.Input, &one) == nil && one.Fn != 0 {
			return []algoCase{one}
		}
		var pair struct{ A, B algoCase }
		if json.Unmarshal(w.Input, &pair) == nil && pair.A.Fn != 0 {
			return []algoCase{pair.A, pair.B}
		}
	}
	if json.Unmarshal(b, &many) == nil && len(many) > 0 {
		return many
	}
	if json.Unmarshal(b, &one) == nil && one.Fn != 0 {
		return []algoCase{one}
	}
	return nil
}

func sortedInts(xs []int) []int { o := append([]int{}, xs...); sort.Ints(o); return o }
