package main

// C14, stream (F): the --tmux popup proxy (src/proxy.go, src/tmux.go).
//
// `fzf --tmux` started inside a tmux pane does not draw anything itself: the OUTER process creates fifos and a shell
// script under $TMPDIR, runs `tmux display-popup -E sh <script>`, and the INNER fzf of the popup hands a become command
// back through <script>.become.  Each session of this stream has
//   * a private tmux server (own socket, no config file) with one window running sh, killed afterwards,
//   * a client attached to it on a pty of the harness (display-popup needs an attached client), through which keys are typed,
//   * a private TMPDIR for fzf, a private working directory for the harness' own files (list, result, status),
// runs  [list |] fzf --tmux[=...] <options>  in the pane, leaves it by one exit path (accept / abort / no match / become /
// become with {f} / inner start-up error / popup cannot be opened / popup closed from outside / client detached / SIGTERM)
// triggered by a typed key, by a load: binding or by POST to --listen, and then checks (Kind "spec"):
//   tmux.exits               the outer process ends (60 s, the trigger repeated twice)
//   tmux.tempfiles_removed   nothing is left in TMPDIR, except the {f} files whose names were handed to the become command
//   tmux.no_child_left       no process of the run (marker variable, pane session, jobs of the tmux server) is left (10 s)
//   tmux.termios_restored    the pane's termios is what it was
//   tmux.pane_modes_restored the pane's screen modes (alternate screen, mouse, cursor, wrap, keypad) are what they were
// and (Kind "corr") against the Coq model of runProxy (op 1408) and the become ledger (op 1406):
//   the files that exist while the popup is open, the exit status, the number of files left.
// A session whose tmux server or client cannot be started is counted as inconclusive, never as a failure.

import (
	"bytes"
	"context"
	"fmt"
	"net"
	"os"
	"os/exec"
	"path/filepath"
	"sort"
	"strconv"
	"strings"
	"sync"
	"syscall"
	"time"

	"golang.org/x/sys/unix"
)

type c14Tmux struct {
	Stdin   string `json:"stdin"`            // file | pipe | tty (list through FZF_DEFAULT_COMMAND)
	Trigger string `json:"trigger"`          // key | load | post | none | tmux | signal
	Key     []byte `json:"key,omitempty"`    // trigger key: the bytes typed on the client terminal
	Action  string `json:"action,omitempty"` // the action that ends the session; @W@ = the working directory
	Cmd     string `json:"cmd,omitempty"`    // trigger tmux: the tmux command (space separated)
	Signal  int    `json:"signal,omitempty"` // trigger signal: sent to the outer fzf process
}

// expected exit status of the outer fzf per exit path (what the model's child status is)
var c14TmuxStatus = map[string]int{"accept": 0, "abort": 130, "nomatch": 1, "become": 126, "becomef": 126,
	"err-listen": 2, "err-noclient": 1, "err-popup-closed": 129, "err-detach": 129}

type c14TmuxRun struct {
	dir, sock, tmp, w string
	env               []string
	client            *exec.Cmd
	master            *os.File
	mu                sync.Mutex
	screen            []byte
	serverPid         int
	panePid           int
	paneTty           string
	base              map[int]bool // processes of the pane that were there before fzf was started (the shell itself)
}

func (t *c14TmuxRun) tmux(args ...string) (string, error) {
	ctx, cancel := context.WithTimeout(context.Background(), 10*time.Second)
	defer cancel()
	cmd := exec.CommandContext(ctx, "tmux", append([]string{"-S", t.sock, "-f", "/dev/null"}, args...)...)
	cmd.Env = t.env
	out, err := cmd.CombinedOutput()
	return strings.TrimSpace(string(out)), err
}

func (t *c14TmuxRun) tail() string {
	t.mu.Lock()
	defer t.mu.Unlock()
	return string(t.screen[max(0, len(t.screen)-600):])
}

// start: server, client, pane facts.  An error here means "inconclusive".
func c14TmuxStart(c *Ctx, cs c14Case) (*c14TmuxRun, error) {
	base := c.Work
	if base == "" {
		base = os.TempDir()
	}
	os.MkdirAll(base, 0755)
	dir, err := os.MkdirTemp(base, "tmx")
	if err != nil {
		return nil, err
	}
	t := &c14TmuxRun{dir: dir, sock: filepath.Join(dir, "s"), tmp: filepath.Join(dir, "tmp"), w: filepath.Join(dir, "w")}
	os.Mkdir(t.tmp, 0755)
	os.Mkdir(t.w, 0755)
	os.Mkdir(filepath.Join(dir, "st"), 0755)
	// the server's own TMPDIR is NOT the one that is scanned
	t.env = []string{"PATH=" + os.Getenv("PATH"), "HOME=" + os.Getenv("HOME"), "TERM=xterm-256color", "SHELL=/bin/sh",
		"TMPDIR=" + filepath.Join(dir, "st"), "LANG=C.UTF-8", "LC_ALL=C.UTF-8", "FZF_DEFAULT_OPTS=", "FZF_DEFAULT_COMMAND="}
	cols, rows := cs.Cols, cs.Rows
	if cols == 0 {
		cols, rows = 100, 30
	}
	if out, err := t.tmux("new-session", "-d", "-x", strconv.Itoa(cols), "-y", strconv.Itoa(rows), "-s", "main", "sh"); err != nil {
		t.close()
		return nil, fmt.Errorf("tmux new-session: %v %s", err, out)
	}
	if cs.Exit != "err-noclient" {
		master, slave, err := openPty(cols, rows)
		if err != nil {
			t.close()
			return nil, err
		}
		cl := exec.Command("tmux", "-S", t.sock, "-f", "/dev/null", "attach", "-t", "main")
		cl.Env = t.env
		cl.Stdin, cl.Stdout, cl.Stderr = slave, slave, slave
		cl.SysProcAttr = &syscall.SysProcAttr{Setsid: true, Setctty: true, Ctty: 0}
		err = cl.Start()
		slave.Close()
		if err != nil {
			master.Close()
			t.close()
			return nil, err
		}
		t.client, t.master = cl, master
		go func() {
			buf := make([]byte, 65536)
			for {
				n, err := master.Read(buf)
				if n > 0 {
					t.mu.Lock()
					t.screen = append(t.screen, buf[:n]...)
					if len(t.screen) > 1<<20 {
						t.screen = append([]byte{}, t.screen[len(t.screen)-(1<<19):]...)
					}
					t.mu.Unlock()
				}
				if err != nil {
					return
				}
			}
		}()
		deadline := time.Now().Add(10 * time.Second)
		for {
			out, _ := t.tmux("list-clients", "-t", "main")
			if strings.Contains(out, "main") {
				break
			}
			if time.Now().After(deadline) {
				t.close()
				return nil, fmt.Errorf("no client attached within 10 s: %q", out)
			}
			time.Sleep(5 * time.Millisecond)
		}
	}
	out, err := t.tmux("display-message", "-p", "-t", "main", "#{pid} #{pane_pid} #{pane_tty}")
	f := strings.Fields(out)
	if err != nil || len(f) != 3 {
		t.close()
		return nil, fmt.Errorf("tmux display-message: %v %q", err, out)
	}
	t.serverPid, _ = strconv.Atoi(f[0])
	t.panePid, _ = strconv.Atoi(f[1])
	t.paneTty = f[2]
	if t.serverPid <= 1 || t.panePid <= 1 {
		t.close()
		return nil, fmt.Errorf("tmux display-message: %q", out)
	}
	// the pane's shell is up and reads commands (tmux sets the pane's termios in the child before it starts the shell)
	ready := filepath.Join(t.w, "h_ready")
	t.tmux("send-keys", "-t", "main", ": > "+ready, "Enter")
	deadline := time.Now().Add(10 * time.Second)
	for !c14Exists(ready) {
		if time.Now().After(deadline) {
			t.close()
			return nil, fmt.Errorf("the pane's shell did not run a command within 10 s: %q", t.tail())
		}
		time.Sleep(2 * time.Millisecond)
	}
	return t, nil
}

func (t *c14TmuxRun) close() {
	if t.sock != "" {
		t.tmux("kill-server")
	}
	if t.serverPid > 1 {
		// the server is gone within moments of kill-server; make sure
		for i := 0; i < 200; i++ {
			if syscall.Kill(t.serverPid, 0) != nil {
				break
			}
			if i == 100 {
				syscall.Kill(t.serverPid, syscall.SIGKILL)
			}
			time.Sleep(5 * time.Millisecond)
		}
	}
	if t.client != nil {
		done := make(chan struct{})
		go func() { t.client.Wait(); close(done) }()
		select {
		case <-done:
		case <-time.After(2 * time.Second):
			t.client.Process.Kill()
			<-done
		}
	}
	if t.master != nil {
		t.master.Close()
	}
	os.RemoveAll(t.dir)
}

const c14TmuxModesFmt = "alt=#{alternate_on} cursor=#{cursor_flag} insert=#{insert_flag} kcursor=#{keypad_cursor_flag} keypad=#{keypad_flag} " +
	"mouse_any=#{mouse_any_flag} mouse_button=#{mouse_button_flag} mouse_std=#{mouse_standard_flag} mouse_sgr=#{mouse_sgr_flag} " +
	"mouse_utf8=#{mouse_utf8_flag} wrap=#{wrap_flag} origin=#{origin_flag}"

func (t *c14TmuxRun) paneState() (termios string, modes string) {
	if fd, err := unix.Open(t.paneTty, unix.O_RDONLY|unix.O_NOCTTY|unix.O_CLOEXEC, 0); err == nil {
		termios, _ = c14TermiosFd(fd)
		unix.Close(fd)
	}
	modes, _ = t.tmux("display-message", "-p", "-t", "main", c14TmuxModesFmt)
	return
}

type c14Proc struct {
	pid, ppid, sid int
	comm, why      string
}

// processes of the run: carrying the marker variable, or in the pane's session (other than the pane shell), or started
// by the tmux server (other than the pane shell): popup jobs.  The server and the pane shell live until the end of the
// session, so neither number can be recycled while this is used.
func (t *c14TmuxRun) procs(mark string) []c14Proc {
	var out []c14Proc
	ents, _ := os.ReadDir("/proc")
	for _, e := range ents {
		pid, err := strconv.Atoi(e.Name())
		if err != nil || pid == os.Getpid() || pid == t.panePid || pid == t.serverPid || t.base[pid] {
			continue
		}
		st, err := os.ReadFile("/proc/" + e.Name() + "/stat")
		if err != nil {
			continue
		}
		r := bytes.LastIndexByte(st, ')')
		l := bytes.IndexByte(st, '(')
		if r < 0 || l < 0 {
			continue
		}
		f := strings.Fields(string(st[r+1:]))
		if len(f) < 20 || f[0] == "Z" || f[0] == "X" {
			continue
		}
		ppid, _ := strconv.Atoi(f[1])
		sid, _ := strconv.Atoi(f[3])
		why := ""
		switch {
		case sid == t.panePid:
			why = "pane-session"
		case ppid == t.serverPid:
			why = "server-job"
		default:
			if env, err := os.ReadFile("/proc/" + e.Name() + "/environ"); err == nil && bytes.Contains(append(env, 0), append([]byte(mark), 0)) {
				why = "marker"
			}
		}
		if why != "" {
			out = append(out, c14Proc{pid, ppid, sid, string(st[l+1 : r]), why})
		}
	}
	return out
}

func c14ProcStrings(ps []c14Proc) []string {
	out := []string{}
	for _, p := range ps {
		out = append(out, fmt.Sprintf("%d:%s(%s)", p.pid, p.comm, p.why))
	}
	return out
}

// the outer fzf: the fzf process in the pane's session (the inner one lives in the popup's own session)
func (t *c14TmuxRun) outerPid(mark string) int {
	for _, p := range t.procs(mark) {
		if p.why == "pane-session" && p.comm == "fzf" {
			return p.pid
		}
	}
	return 0
}

func c14Exists(p string) bool { _, err := os.Stat(p); return err == nil }

// kind of a file in the scanned TMPDIR, as the model numbers them: 0 output fifo, 1 input fifo, 2 script, 3 become file
func c14TmuxKind(dir, name string) int {
	fi, err := os.Lstat(filepath.Join(dir, name))
	fifo := err == nil && fi.Mode()&os.ModeNamedPipe != 0
	switch {
	case fifo && strings.Contains(name, "output"):
		return 0
	case fifo:
		return 1
	case strings.HasSuffix(name, becomeSuffixC14):
		return 3
	}
	return 2
}

const becomeSuffixC14 = ".become"

func c14TmuxList(dir string) []string {
	out := []string{}
	ents, _ := os.ReadDir(dir)
	for _, e := range ents {
		out = append(out, e.Name())
	}
	sort.Strings(out)
	return out
}

func c14TmuxSession(c *Ctx, cs c14Case, id string) {
	rep := c.Rep
	tm := cs.Tmux
	if tm == nil {
		return
	}
	key := fmt.Sprintf("tmux %v %v %s %s %s", cs.Args, *tm, cs.Exit, cs.Known, string(cs.Input))
	inconclusive := func(why string, err error) {
		rep.Count("tmux:inconclusive:" + why)
		rep.mu.Lock()
		rep.Extra["tmux_inconclusive_"+why] = fmt.Sprint(err)
		rep.mu.Unlock()
	}
	if _, err := exec.LookPath("tmux"); err != nil {
		inconclusive("no-tmux", err)
		return
	}
	t, err := c14TmuxStart(c, cs)
	if err != nil {
		inconclusive("start", err)
		return
	}
	mark := "C14MARK=" + id
	defer func() {
		t.close()
		c14KillSurvivors(0, mark, 0)
	}()
	termios0, modes0 := t.paneState()
	base := map[int]bool{}
	for _, p := range t.procs(mark) {
		base[p.pid] = true // tmux runs the window's command through "sh -c": the shell proper is a child of the pane's process
	}
	t.base = base

	// ---- the command line
	W := t.w
	sub := func(s string) string { return strings.ReplaceAll(s, "@W@", W) }
	args := []string{}
	for _, a := range cs.Args {
		args = append(args, sub(a))
	}
	loaded := filepath.Join(W, "h_loaded")
	bind := "load:execute-silent(: > " + loaded + ")"
	if tm.Trigger == "load" {
		bind += "+" + sub(tm.Action)
	}
	args = append(args, "--bind", bind)
	if tm.Trigger == "key" && tm.Action != "" {
		args = append(args, "--bind", "ctrl-t:"+sub(tm.Action))
	}
	port := 0
	var hold net.Listener
	switch {
	case tm.Trigger == "post":
		port = freePort()
		args = append(args, "--listen=localhost:"+strconv.Itoa(port))
	case cs.Exit == "err-listen":
		// the port is taken (by us): the inner fzf cannot start its server and ends with an error
		hold, err = net.Listen("tcp", "127.0.0.1:0")
		if err != nil {
			inconclusive("listen", err)
			return
		}
		defer hold.Close()
		args = append(args, "--listen=localhost:"+strconv.Itoa(hold.Addr().(*net.TCPAddr).Port))
	}
	os.WriteFile(filepath.Join(W, "h_stdin"), cs.Input, 0600)
	var sc strings.Builder
	fmt.Fprintf(&sc, "cd %s || exit 99\nexport TMPDIR=%s %s\n", shQuote(W), shQuote(t.tmp), shQuote(mark))
	cmdline := shQuote(c.Fzf)
	for _, a := range args {
		cmdline += " " + shQuote(a)
	}
	switch tm.Stdin {
	case "pipe":
		fmt.Fprintf(&sc, "cat h_stdin | %s > h_out\n", cmdline)
	case "tty":
		fmt.Fprintf(&sc, "export FZF_DEFAULT_COMMAND='cat h_stdin'\n%s > h_out\n", cmdline)
	default:
		fmt.Fprintf(&sc, "%s < h_stdin > h_out\n", cmdline)
	}
	sc.WriteString("echo $? > h_done.tmp\nmv h_done.tmp h_done\n")
	script := filepath.Join(W, "h_run.sh")
	os.WriteFile(script, []byte(sc.String()), 0700)
	done := filepath.Join(W, "h_done")
	if out, err := t.tmux("send-keys", "-t", "main", "sh "+script, "Enter"); err != nil {
		inconclusive("send-keys", fmt.Errorf("%v %s", err, out))
		return
	}
	rep.ImplTraces++

	// ---- wait for the popup (the inner fzf has loaded its list) or for an early end
	needsPopup := cs.Exit != "err-listen" && cs.Exit != "err-noclient"
	deadline := time.Now().Add(20 * time.Second)
	for !c14Exists(loaded) && !c14Exists(done) && time.Now().Before(deadline) {
		time.Sleep(2 * time.Millisecond)
	}
	popup := c14Exists(loaded)
	if !popup && !c14Exists(done) && needsPopup {
		// neither a popup nor an end within 20 s: this tmux cannot show the popup here (or is too slow): not a verdict
		inconclusive("popup", fmt.Errorf("no popup and no exit within 20 s; client terminal: %q", t.tail()))
		return
	}
	var live []string
	liveKinds := []Val{}
	if popup && tm.Trigger != "load" && !c14Exists(done) {
		live = c14TmuxList(t.tmp)
		for _, n := range live {
			liveKinds = append(liveKinds, I(c14TmuxKind(t.tmp, n)))
		}
		sort.Slice(liveKinds, func(i, j int) bool { return liveKinds[i].I < liveKinds[j].I })
	}

	// ---- leave
	fire := func() {
		switch tm.Trigger {
		case "key":
			if t.master != nil {
				t.master.Write(tm.Key)
			}
		case "post":
			body := sub(tm.Action)
			conn, err := net.DialTimeout("tcp", "127.0.0.1:"+strconv.Itoa(port), 2*time.Second)
			if err == nil {
				conn.SetDeadline(time.Now().Add(5 * time.Second))
				fmt.Fprintf(conn, "POST / HTTP/1.1\r\nHost: localhost\r\nContent-Length: %d\r\n\r\n%s", len(body), body)
				buf := make([]byte, 512)
				conn.Read(buf)
				conn.Close()
			}
		case "tmux":
			t.tmux(strings.Fields(tm.Cmd)...)
		case "signal":
			if pid := t.outerPid(mark); pid > 1 {
				syscall.Kill(pid, syscall.Signal(tm.Signal))
			}
		}
	}
	if popup && !c14Exists(done) {
		fire()
	}
	ended := false
	for try := 0; try < 3 && !ended; try++ {
		deadline = time.Now().Add(20 * time.Second)
		for !c14Exists(done) && time.Now().Before(deadline) {
			time.Sleep(2 * time.Millisecond)
		}
		ended = c14Exists(done)
		if !ended && popup && (tm.Trigger == "key" || tm.Trigger == "post") {
			fire() // liveness: the request is repeated before anything is reported
		}
	}
	rep.SpecChecks++
	rep.Eval(key, true)
	rep.Count("tmux:exit=" + cs.Exit)
	rep.Count("tmux:trigger=" + tm.Trigger + " stdin=" + tm.Stdin)
	fail := func(what string, got, want interface{}) {
		rep.Disagreement(Disagreement{Kind: "spec", Name: "tmux." + what, Input: cs, Impl: got, Expect: want, Known: cs.Known})
	}
	if !ended {
		fail("exits", fmt.Sprintf("fzf --tmux still running 60 s after the %s trigger (%s); processes: %v; client terminal: %q",
			tm.Trigger, cs.Exit, c14ProcStrings(t.procs(mark)), t.tail()), "the process ends")
		return
	}
	status := -1
	if b, err := os.ReadFile(done); err == nil {
		status, _ = strconv.Atoi(strings.TrimSpace(string(b)))
	}

	// ---- no process left (eventually: children are killed asynchronously, the run script ends after writing the status)
	wait := 10 * time.Second
	if cs.Known != "" {
		wait = 500 * time.Millisecond
	}
	deadline = time.Now().Add(wait)
	left := t.procs(mark)
	for len(left) > 0 && time.Now().Before(deadline) {
		time.Sleep(10 * time.Millisecond)
		left = t.procs(mark)
	}
	if len(left) > 0 {
		fail("no_child_left", c14ProcStrings(left), "no process of the run left 10 s after the outer fzf has ended")
	}

	// ---- nothing left in TMPDIR, except the files whose names were handed over to the become command (documented:
	// become leaves its {f} files to the new program); the become command of this stream writes its arguments to h_res
	allowed := map[string]bool{}
	if res, err := os.ReadFile(filepath.Join(W, "h_res")); err == nil {
		for _, w := range strings.Fields(string(res)) {
			if filepath.Dir(w) == t.tmp {
				allowed[filepath.Base(w)] = true
			}
		}
	}
	listing := c14TmuxList(t.tmp)
	for try := 0; try < 20 && len(listing) > len(allowed) && len(left) == 0; try++ { // be sure it is not a removal in flight
		time.Sleep(25 * time.Millisecond)
		listing = c14TmuxList(t.tmp)
	}
	handed, extra, extraKinds := 0, []string{}, []Val{}
	for _, n := range listing {
		if allowed[n] {
			handed++
			continue
		}
		k := c14TmuxKind(t.tmp, n)
		extra = append(extra, fmt.Sprintf("%s (%s)", n, []string{"output fifo", "input fifo", "script / temp file", "become hand-over file"}[k]))
		extraKinds = append(extraKinds, I(k))
	}
	if len(extra) > 0 {
		fail("tempfiles_removed", fmt.Sprintf("left in TMPDIR after exit status %d: %v", status, extra), "nothing (apart from the {f} files handed to the become command)")
	}

	// ---- the pane is as it was
	termios1, modes1 := t.paneState()
	if termios0 != "" && termios1 != termios0 {
		fail("termios_restored", termios1, termios0)
	}
	if modes0 != "" && modes1 != "" && modes1 != modes0 {
		fail("pane_modes_restored", modes1, modes0)
	}

	// ---- correspondence with the model of runProxy
	want, known := c14TmuxStatus[cs.Exit]
	if !known || cs.Known != "" {
		return
	}
	if needsPopup && !popup {
		rep.Count("tmux:inconclusive:popup-failed") // the cleanliness checks above still applied (an error path)
		return
	}
	become := cs.Exit == "become" || cs.Exit == "becomef"
	mv := c.Model.Call(1408, L(B(tm.Stdin == "tty"), B(true), B(true), B(true), I(want), B(true), B(become), B(true)))
	if len(mv.L) != 5 {
		rep.Disagreement(Disagreement{Kind: "corr", Name: "corr:C14.proxy_model", Input: cs, Impl: "-", Expect: mv.String()})
		return
	}
	if live != nil {
		if !L(liveKinds...).Equal(mv.L[0]) {
			rep.Disagreement(Disagreement{Kind: "corr", Name: "corr:C14.proxy_live_files", Input: cs, Impl: live, Expect: mv.L[0].String() + " (0 output fifo, 1 input fifo, 2 script)"})
		}
	}
	wantStatus := int(mv.L[2].I)
	if mv.L[3].I == 1 {
		wantStatus = 0 // the process was replaced by the become command, which ends with 0
	}
	if status != wantStatus {
		rep.Disagreement(Disagreement{Kind: "corr", Name: "corr:C14.proxy_exit_status", Input: cs, Impl: status, Expect: wantStatus})
	}
	if !L(extraKinds...).Equal(mv.L[1]) {
		rep.Disagreement(Disagreement{Kind: "corr", Name: "corr:C14.proxy_files_left", Input: cs, Impl: extra, Expect: mv.L[1].String()})
	}
	if become {
		// the {f} files of the inner fzf: the ledger model's become
		nf := strings.Count(tm.Action, "{f}") + strings.Count(tm.Action, "{+f}")
		lv := c.Model.Call(1406, L(Ints([]int{7}), Ints([]int{8, 1, nf}), Ints([]int{9})))
		if len(lv.L) == 2 && int(lv.L[0].I) != handed {
			rep.Disagreement(Disagreement{Kind: "corr", Name: "corr:C14.proxy_become_ledger", Input: cs, Impl: handed, Expect: lv.L[0].I})
		}
		if res, _ := os.ReadFile(filepath.Join(W, "h_res")); !bytes.HasPrefix(res, []byte("became")) {
			rep.Disagreement(Disagreement{Kind: "corr", Name: "corr:C14.proxy_become_runs", Input: cs, Impl: string(res), Expect: "the become command has run"})
		}
	}
	rep.Sample(cs)
}

func c14GenTmux(r *RNG, i int) c14Case {
	exits := []string{"become", "accept", "abort", "becomef", "err-popup-closed", "nomatch", "err-listen", "become", "err-noclient", "accept", "err-detach", "abort", "becomef", "sigterm"}
	cs := c14Case{Kind: "tmux", Input: c14Lines, Exit: exits[i%len(exits)], Cols: Pick(r, []int{80, 100, 120}), Rows: Pick(r, []int{24, 30, 40})}
	tm := &c14Tmux{Stdin: Pick(r, []string{"file", "pipe", "tty", "file"})}
	cs.Tmux = tm
	cs.Args = []string{Pick(r, []string{"--tmux", "--tmux=center", "--tmux=bottom,40%", "--tmux=top,50%", "--tmux=left,50%", "--tmux=right,60%,border-native",
		"--tmux=center,80%,60%", "--tmux=90%", "--tmux=center,border-native"})}
	pool := [][]string{{"--multi"}, {"--reverse"}, {"--border=rounded"}, {"--preview=echo {}"}, {"--preview=sleep 30"}, {"--preview=sleep 30 | cat"}, {"--no-mouse"},
		{"--style=full"}, {"--header=H"}, {"--info=inline"}, {"--cycle"}, {"--print-query"}, {"--no-input"}, {"--height=50%"}, {"--bind=focus:transform-header(echo f)"}, {"--wrap"}}
	n := r.Range(0, 2)
	for k := 0; k < n; k++ {
		o := Pick(r, pool)
		if o[0] == "--height=50%" {
			cs.Args = append(append([]string{}, o...), cs.Args...) // before --tmux: the later one wins (after it, --tmux is ignored)
			continue
		}
		if strings.HasPrefix(o[0], "--preview=sleep") && (cs.Exit == "err-popup-closed" || cs.Exit == "err-detach") {
			// closing the popup from outside hangs up the INNER fzf's terminal: SIGHUP is not handled (known finding
			// c14-sighup), a running preview command would stay; that is not what this stream is about
			continue
		}
		cs.Args = append(cs.Args, o...)
	}
	if i%len(exits) == 7 {
		// become while a forking preview command runs in the popup: always part of a run
		cs.Args = append(cs.Args, "--preview=sleep 30 | cat")
	}
	trig := Pick(r, []string{"key", "load", "post"})
	set := func(key []byte, action string) {
		tm.Trigger = trig
		switch trig {
		case "key":
			tm.Key = key
			if key[0] == 0x14 {
				tm.Action = action // bound to ctrl-t
			}
		default:
			tm.Action = action
		}
	}
	switch cs.Exit {
	case "accept":
		set([]byte("\r"), "accept")
	case "abort":
		k := Pick(r, []string{"\x1b", "\x03", "\x07", "\x11"})
		set([]byte(k), "abort")
	case "nomatch":
		cs.Args = append(cs.Args, "--query", "no-such-line")
		set([]byte("\r"), "accept")
	case "become":
		set([]byte{0x14}, "become(echo became {} > @W@/h_res)")
	case "becomef":
		ph := Pick(r, []string{"{f}", "{+f}", "{f} {+f}", "{f} {f}"})
		set([]byte{0x14}, "become(echo became "+ph+" > @W@/h_res)")
	case "err-listen", "err-noclient":
		tm.Trigger = "none"
	case "err-popup-closed":
		tm.Trigger, tm.Cmd = "tmux", "display-popup -C"
	case "err-detach":
		tm.Trigger, tm.Cmd = "tmux", "detach-client -s main"
	case "sigterm":
		// KNOWN (c14-tmux-sigterm): the outer process installs a handler for SIGINT only
		tm.Trigger, tm.Signal = "signal", int(syscall.SIGTERM)
		cs.Known = "c14-tmux-sigterm"
	}
	return cs
}
