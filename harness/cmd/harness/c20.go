package main

// C20 — the preview always catches up with the focused line.
//
// Implementation under test: the fzf binary built from the working tree, driven through pty.go.
// The preview command is a logging script: it appends `start <pid> <id> <kind> N={n} [Q={q}] [P={+n}]` to
// ./LOG (the session's private directory), then behaves according to <kind> (instant, short, slow, never
// ending, silent or printing), then appends `end <pid>`.
//
// Checks (spec = PreviewSpec evaluated by the extracted Coq code on what the implementation did):
//   caught_up        (liveness, eventually within 10 s, whole session re-run twice before reporting)
//                    the last `start` line = expansion(template, state from GET /)
//   at_most_one      (safety) a newer command has logged `start` while an older one is still alive
//   no_stale_alive   (safety, at quiescence) every started command but the last is dead
//   none_alive       (safety, after the session ended) no process carrying the session's marker survives
//   shown            (liveness) the last OUT: marker drawn on the terminal is the last command's
// Correspondence (corr): the user labels derived from the GET states are run through the model (canonical
// schedule: every request gets started); the commands the implementation started must be a subsequence of
// the model's requests ending with the same command, and the model must be quiescent and agree on `want`.

import (
	"encoding/json"
	"errors"
	"fmt"
	"os"
	"path/filepath"
	"strconv"
	"strings"
	"sync"
	"sync/atomic"
	"syscall"
	"time"
)

type c20Step struct {
	A string   `json:"a"`           // up down toggle put:<c> bs refresh toggle-preview change:<variant>
	B []string `json:"b,omitempty"` // further actions fired back-to-back after A (gap GapUs), only up/down/toggle
	P int      `json:"p"`           // pause before, ms
	C bool     `json:"c,omitempty"` // checkpoint: after this step wait until the preview has caught up
}

type c20Case struct {
	Stream string    `json:"stream"` // hist | b2b | exit | batch
	Kind   string    `json:"kind"`   // instant short slowsilent slowverbose foreversilent foreverinc
	Tmpl   int       `json:"tmpl"`   // placeholder variant 0: N Q P  1: N P  2: N  3: N Q
	Steps  []c20Step `json:"steps"`
	GapUs  int       `json:"gap_us,omitempty"`
	Exit   string    `json:"exit"`              // accept | abort | sigterm
	ExitUs int       `json:"exit_us,omitempty"` // exit stream: delay between the last action and the exit, µs (-1: after quiescence)
	Batch  string    `json:"batch,omitempty"`   // batch stream: one action list POSTed as is
	Screen bool      `json:"screen,omitempty"`
}

type c20Finding struct {
	Kind     string
	Name     string
	Impl     interface{}
	Expect   interface{}
	Liveness bool
	Known    string
}

type c20Result struct {
	Findings     []c20Finding
	Starts       int
	Killed       int
	Labels       int
	CatchUpMs    int64
	Err          string // infrastructure problem (session did not start): not a verdict
	Nontrivial   bool
	AliveAtExit  bool
	Survivors    int
	CorrDone     bool
	Checkpoints  int
	ShownChecked bool
}

var c20ScriptOnce sync.Once
var c20Script string
var c20Counter int64

const c20ScriptText = `#!/bin/sh
# usage: pv.sh ID KIND N=.. [Q=..] [P=..]
echo "start $$ $*" >> LOG
id=$1; kind=$2; shift; shift
tag="OUT:$id:$*:"
case $kind in
 instant) echo "$tag" ;;
 short) sleep 0.05; echo "$tag" ;;
 slowsilent) sleep 6; echo "$tag" ;;
 slowverbose) echo "$tag"; sleep 6 ;;
 foreversilent) sleep 100000 ;;
 foreverinc) echo "$tag"; while :; do echo x; sleep 0.05; done ;;
esac
echo "end $$" >> LOG
`

func c20Setup(c *Ctx) {
	c20ScriptOnce.Do(func() {
		os.MkdirAll(c.Work, 0755)
		c20Script = filepath.Join(c.Work, "c20pv.sh")
		os.WriteFile(c20Script, []byte(c20ScriptText), 0755)
	})
}

type c20Tmpl struct {
	ID      int
	Variant int
}

func (t c20Tmpl) plus() bool { return t.Variant == 0 || t.Variant == 1 }
func (t c20Tmpl) q() bool    { return t.Variant == 0 || t.Variant == 3 }
func (t c20Tmpl) cmd(kind string) string {
	s := fmt.Sprintf("sh %s %d %s N={n}", c20Script, t.ID, kind)
	if t.q() {
		s += " Q={q}"
	}
	if t.plus() {
		s += " \"P={+n}\""
	}
	return s
}
func (t c20Tmpl) val() Val { return L(I(t.ID), B(true), B(t.plus()), B(t.q())) }

type c20UI struct {
	Focus int
	Query string
	Sel   []int
}

func c20UIOf(st *FzfState) c20UI {
	u := c20UI{Focus: -1, Query: st.Query}
	if st.Current != nil {
		u.Focus = st.Current.Index
	}
	for _, s := range st.Selected {
		u.Sel = append(u.Sel, s.Index)
	}
	return u
}
func (u c20UI) val() Val { return L(I(u.Focus), Bytes(u.Query), Ints(u.Sel)) }
func (u c20UI) equal(v c20UI) bool {
	return u.Focus == v.Focus && u.Query == v.Query && fmt.Sprint(u.Sel) == fmt.Sprint(v.Sel)
}

func c20Opt(has bool, v Val) Val {
	if has {
		return L(v)
	}
	return L()
}
func (s c20Start) args() Val {
	p := s.P
	if s.HasP && len(p) == 0 {
		p = []int{-1} // {+n} of the empty list: the (absent) focused line
	}
	return L(I(s.ID), I(s.N), c20Opt(s.HasP, Ints(p)), c20Opt(s.HasQ, Bytes(s.Q)))
}

// diff of two UI states as model labels
func c20Diff(a, b c20UI) []Val {
	var out []Val
	if a.Query != b.Query {
		out = append(out, L(I(1), Bytes(b.Query)))
	}
	if fmt.Sprint(a.Sel) != fmt.Sprint(b.Sel) {
		out = append(out, L(I(2), Ints(b.Sel)))
	}
	if a.Focus != b.Focus {
		out = append(out, L(I(0), I(b.Focus)))
	}
	return out
}

var c20Items = []string{"abc", "acb", "bac", "bca", "cab", "cba", "ab", "ba", "ac", "ca", "bc", "cb", "a", "b", "c",
	"aab", "abb", "bcc", "cca", "aaa", "bbb", "ccc", "abca", "cabc"}

var c20Policy = L(I(1), I(2)) // the machine of the tree: poll (b3cab5f), exit waits for the previewer goroutine (5b17ce0)

func c20ActionString(a string, kind string, nextID *int, tm *c20Tmpl) (post string, direct int) {
	switch {
	case a == "up" || a == "down" || a == "toggle":
		return a, -1
	case strings.HasPrefix(a, "put:"):
		return "put(" + a[4:] + ")", -1
	case a == "bs":
		return "backward-delete-char", -1
	case a == "refresh":
		return "refresh-preview", 4
	case a == "toggle-preview":
		return "toggle-preview", 5
	case strings.HasPrefix(a, "change:"):
		v, _ := strconv.Atoi(a[7:])
		*nextID++
		*tm = c20Tmpl{ID: *nextID, Variant: v}
		return "change-preview(" + tm.cmd(kind) + ")", 3
	}
	return a, -1
}

// predicted effect of up/down/toggle on a known match list (default layout, no cycle, --multi unlimited)
func c20Predict(u c20UI, matches []FzfItem, pos int, a string) (c20UI, int) {
	switch a {
	case "up":
		if pos+1 < len(matches) {
			pos++
		}
	case "down":
		if pos > 0 {
			pos--
		}
	case "toggle":
		if len(matches) > 0 {
			idx := matches[pos].Index
			found := -1
			for i, s := range u.Sel {
				if s == idx {
					found = i
				}
			}
			ns := append([]int{}, u.Sel...)
			if found >= 0 {
				ns = append(ns[:found], ns[found+1:]...)
			} else {
				ns = append(ns, idx)
			}
			u.Sel = ns
		}
	}
	if len(matches) > 0 {
		u.Focus = matches[pos].Index
	}
	return u, pos
}

// classifier of known finding c20-batched-refresh: ONE action list with a cursor-moving action before and after a
// direct preview refresh (refresh-preview, change-preview(..), toggle-preview / show-preview / hide-preview)
func c20BatchedRefreshShape(list string) bool {
	moves := map[string]bool{"up": true, "down": true, "first": true, "last": true, "page-up": true, "page-down": true,
		"half-page-up": true, "half-page-down": true, "toggle+up": true, "toggle+down": true}
	before, direct, after := false, false, false
	for _, a := range strings.Split(list, "+") {
		name := a
		if i := strings.IndexAny(a, "(:"); i >= 0 {
			name = a[:i]
		}
		switch {
		case moves[name]:
			if direct {
				after = true
			} else {
				before = true
			}
		case name == "refresh-preview" || name == "change-preview" || name == "toggle-preview" || name == "show-preview" || name == "hide-preview":
			if before {
				direct = true
			}
		}
	}
	return before && direct && after
}

// the model's scope: a command is started for this state (not the items[0]==nil branch)
func predictedOK(ui c20UI, tm c20Tmpl) bool {
	return !(ui.Focus < 0 && !tm.q() && !(tm.plus() && len(ui.Sel) > 0))
}

func c20ReadLog(s *Session) []c20Start {
	b, _ := os.ReadFile(filepath.Join(s.Dir, "LOG"))
	return parseC20Log(b)
}

// the script shell of a start line is alive
func c20Alive(st c20Start, marker string) bool {
	if !pidAlive(st.Pid) || !pidHasMarker(st.Pid, marker) {
		return false
	}
	cmd, err := os.ReadFile("/proc/" + strconv.Itoa(st.Pid) + "/cmdline")
	if err != nil {
		return false
	}
	want := fmt.Sprintf("c20pv.sh\x00%d\x00%s\x00", st.ID, st.Kind)
	return strings.Contains(string(cmd), want) && pidAlive(st.Pid)
}

func c20AliveList(starts []c20Start, marker string) []int {
	var out []int
	seen := map[int]bool{}
	for i := len(starts) - 1; i >= 0; i-- { // newest first; a reused pid belongs to the newest entry
		if seen[starts[i].Pid] {
			continue
		}
		seen[starts[i].Pid] = true
		if !starts[i].Ended && c20Alive(starts[i], marker) {
			out = append(out, i)
		}
	}
	return out
}

func c20Spec(c *Ctx, tm c20Tmpl, u c20UI, starts []c20Start, alive map[int]bool) (exp Val, caught, noStale, atMost, none bool) {
	cs := []Val{}
	for i, s := range starts {
		cs = append(cs, L(s.args(), B(alive[i]), L()))
	}
	r := c.Model.Call(2002, L(tm.val(), u.val(), L(cs...)))
	if !r.IsList || len(r.L) < 5 {
		return r, false, false, false, false
	}
	return r.L[0], r.L[1].I == 1, r.L[2].I == 1, r.L[3].I == 1, r.L[4].I == 1
}

func c20Run(c *Ctx, cs c20Case) (res c20Result) {
	c20Setup(c)
	marker := fmt.Sprintf("C20MARK=%d_%d", os.Getpid(), atomic.AddInt64(&c20Counter, 1))
	tm := c20Tmpl{ID: 1, Variant: cs.Tmpl}
	nextID := 1
	s, err := StartSession(c, SessionOpts{
		Args:  []string{"--multi", "--no-sort", "--preview", tm.cmd(cs.Kind), "--preview-window", "right,50%"},
		Lines: c20Items, Cols: 100, Rows: 24, Env: []string{marker}})
	if err != nil {
		res.Err = err.Error()
		return
	}
	defer func() {
		s.Close()
		killMarked(marker)
	}()
	add := func(f c20Finding) { res.Findings = append(res.Findings, f) }
	// the list is read asynchronously: wait until it is complete and the cursor is on the first line
	st, ok := s.WaitFor(func(g *FzfState) bool {
		return !g.Reading && g.TotalCount == len(c20Items) && g.MatchCount == len(c20Items) && g.Current != nil
	}, 10*time.Second)
	if !ok || st == nil {
		res.Err = "list not loaded within 10 s"
		return
	}
	ui := c20UIOf(st)
	labels := []Val{}
	labels = append(labels, c20Diff(c20UI{Focus: -1}, ui)...)
	visible := true
	predicted := true
	safety := func() {
		starts := c20ReadLog(s)
		al := c20AliveList(starts, marker)
		if len(al) >= 2 {
			// al is newest first: an older command alive although a newer one has logged its start
			time.Sleep(2 * time.Millisecond)
			if c20Alive(starts[al[len(al)-1]], marker) {
				add(c20Finding{Kind: "spec", Name: "at_most_one_alive", Impl: fmt.Sprint("alive together: ", starts[al[0]], " and ", starts[al[len(al)-1]]), Expect: "a command is started only after the previous one is dead"})
			}
		}
	}
	settleQuery := func(want string) *FzfState {
		deadline := time.Now().Add(3 * time.Second)
		var last *FzfState
		stable := 0
		for time.Now().Before(deadline) {
			g, err := s.Get()
			if err != nil {
				return last
			}
			if last != nil && g.Query == want && g.MatchCount == last.MatchCount && c20UIOf(g).equal(c20UIOf(last)) {
				stable++
				if stable >= 2 {
					return g
				}
			} else {
				stable = 0
			}
			last = g
			time.Sleep(6 * time.Millisecond)
		}
		return last
	}
	var lastActionAt time.Time
	checkpointFailed := false
	for _, stp := range cs.Steps {
		if s.Exited() {
			break
		}
		if stp.P > 0 {
			time.Sleep(time.Duration(stp.P) * time.Millisecond)
		}
		post, direct := c20ActionString(stp.A, cs.Kind, &nextID, &tm)
		if len(stp.B) == 0 {
			if err := s.PostSync(post); err != nil {
				res.Err = "post " + post + ": " + err.Error()
				return
			}
			lastActionAt = time.Now()
			var g *FzfState
			if strings.HasPrefix(stp.A, "put:") || stp.A == "bs" {
				want := ui.Query
				if stp.A == "bs" {
					if len(want) > 0 {
						want = want[:len(want)-1]
					}
				} else {
					want += stp.A[4:]
				}
				g = settleQuery(want)
			} else {
				g, _ = s.Get()
			}
			if g == nil {
				res.Err = "GET failed"
				return
			}
			nu := c20UIOf(g)
			labels = append(labels, c20Diff(ui, nu)...)
			ui = nu
			switch direct {
			case 3:
				labels = append(labels, L(I(3), tm.val()))
			case 4:
				labels = append(labels, L(I(4)))
			case 5:
				labels = append(labels, L(I(5)))
				visible = !visible
			}
			st = g
		} else {
			// back-to-back group: predicted intermediate states
			acts := append([]string{stp.A}, stp.B...)
			g0, err := s.Get()
			if err != nil {
				res.Err = err.Error()
				return
			}
			pu := c20UIOf(g0)
			labels = append(labels, c20Diff(ui, pu)...)
			pos := g0.Position
			posts := []string{}
			for _, a := range acts {
				p, _ := c20ActionString(a, cs.Kind, &nextID, &tm)
				posts = append(posts, p)
				nu, np := c20Predict(pu, g0.Matches, pos, a)
				labels = append(labels, c20Diff(pu, nu)...)
				pu, pos = nu, np
			}
			if err := s.PostBurst(posts, time.Duration(cs.GapUs)*time.Microsecond); err != nil {
				res.Err = "burst: " + err.Error()
				return
			}
			lastActionAt = time.Now()
			if cs.Stream == "exit" && cs.ExitUs >= 0 {
				ui = pu
				break
			}
			s.Sync()
			g, err := s.Get()
			if err != nil {
				res.Err = err.Error()
				return
			}
			if !c20UIOf(g).equal(pu) {
				predicted = false
				labels = append(labels, c20Diff(pu, c20UIOf(g))...)
			}
			ui = c20UIOf(g)
			st = g
		}
		safety()
		if stp.C && visible && predictedOK(ui, tm) {
			// checkpoint (liveness): the command for the state reached now gets started
			dl := time.Now().Add(10 * time.Second)
			okc := false
			var expv Val
			var starts []c20Start
			for {
				if g, err := s.Get(); err == nil {
					nu := c20UIOf(g)
					if !nu.equal(ui) {
						labels = append(labels, c20Diff(ui, nu)...)
						ui = nu
					}
				}
				if !predictedOK(ui, tm) {
					okc = true
					break
				}
				starts = c20ReadLog(s)
				expv, okc, _, _, _ = c20Spec(c, tm, ui, starts, nil)
				if okc || time.Now().After(dl) {
					break
				}
				time.Sleep(5 * time.Millisecond)
			}
			res.Checkpoints++
			if !okc {
				last := "(no command was started)"
				if len(starts) > 0 {
					last = starts[len(starts)-1].String()
				}
				checkpointFailed = true
				add(c20Finding{Kind: "spec", Name: "latest_wins", Impl: "checkpoint after step " + stp.A + ": last started: " + last, Expect: "command for the current state: " + expv.String() + fmt.Sprintf(" (ui %+v)", ui), Liveness: true})
				break
			}
		}
	}
	if cs.Batch != "" {
		// one action list as is; the model labels are not derived (known-finding stream)
		predicted = false
		if err := s.PostSync(cs.Batch); err != nil {
			res.Err = "batch: " + err.Error()
			return
		}
		if g, err := s.Get(); err == nil {
			ui = c20UIOf(g)
		}
	}
	res.Labels = len(labels)

	exitInWindow := cs.Stream == "exit" && cs.ExitUs >= 0
	if !exitInWindow {
		// ---- quiescence: eventually (10 s) the last start line is the command for the current state ----
		t0 := time.Now()
		deadline := t0.Add(10 * time.Second)
		if checkpointFailed { // already waited 10 s for this very state
			deadline = t0.Add(time.Second)
		}
		var starts []c20Start
		var expv Val
		caught := false
		lastLen := -1
		lastChange := time.Now()
		for {
			g, err := s.Get()
			if err != nil {
				res.Err = "GET at quiescence: " + err.Error()
				return
			}
			nu := c20UIOf(g)
			if !nu.equal(ui) {
				labels = append(labels, c20Diff(ui, nu)...)
				ui = nu
				lastChange = time.Now()
			}
			starts = c20ReadLog(s)
			if len(starts) != lastLen {
				lastLen = len(starts)
				lastChange = time.Now()
			}
			var cu bool
			expv, cu, _, _, _ = c20Spec(c, tm, ui, starts, nil)
			caught = cu || !visible || (ui.Focus < 0 && !tm.q() && !(tm.plus() && len(ui.Sel) > 0))
			if caught && time.Since(lastChange) >= 300*time.Millisecond {
				break
			}
			if time.Now().After(deadline) {
				break
			}
			time.Sleep(10 * time.Millisecond)
		}
		res.CatchUpMs = time.Since(t0).Milliseconds()
		res.Starts = len(starts)
		c.Rep.mu.Lock()
		c.Rep.SpecChecks++
		c.Rep.mu.Unlock()
		al := c20AliveList(starts, marker)
		alive := map[int]bool{}
		for _, i := range al {
			alive[i] = true
		}
		_, cu, noStale, atMost, _ := c20Spec(c, tm, ui, starts, alive)
		// items[0] == nil branch (empty list, template without {q} and no selection to show): fzf starts no command and
		// blanks the window; outside the model's scope, only the safety checks apply
		unforced := ui.Focus < 0 && !tm.q() && !(tm.plus() && len(ui.Sel) > 0)
		if unforced {
			c.Rep.Count("empty_list_unforced_template")
			predicted = false
			if !cu {
				cu = true
				noStale = true
			}
		}
		for i, stl := range starts {
			if !stl.Ended && !alive[i] {
				res.Killed++
			}
		}
		if visible && !cu {
			last := "(no command was started)"
			if len(starts) > 0 {
				last = starts[len(starts)-1].String()
			}
			f := c20Finding{Kind: "spec", Name: "latest_wins", Impl: "last started: " + last, Expect: "command for the current state: " + expv.String() + fmt.Sprintf(" (ui %+v)", ui), Liveness: true}
			if cs.Stream == "batch" && c20BatchedRefreshShape(cs.Batch) {
				f.Known = "c20-batched-refresh"
			}
			add(f)
		}
		if !atMost {
			add(c20Finding{Kind: "spec", Name: "at_most_one_alive", Impl: fmt.Sprint("alive at quiescence: ", al, " of ", starts), Expect: "at most one"})
		}
		if visible && cu && !noStale {
			add(c20Finding{Kind: "spec", Name: "superseded_get_cancel", Impl: fmt.Sprint("alive at quiescence: ", al, " of ", starts), Expect: "only the last started command may be alive"})
		}
		// ---- preview window text ----
		if visible && cu && !unforced && len(starts) > 0 && (cs.Kind == "instant" || cs.Kind == "short" || cs.Kind == "slowverbose" || cs.Kind == "foreverinc") {
			last := starts[len(starts)-1]
			want := fmt.Sprintf("OUT:%d:N=", last.ID)
			if last.N >= 0 {
				want += strconv.Itoa(last.N)
			}
			if last.HasQ {
				want += " Q=" + last.Q
			}
			want += " "
			if !last.HasP {
				want = strings.TrimSuffix(want, " ") + ":"
			} else {
				want += "P="
			}
			if last.HasP {
				if len(last.P) == 0 {
					want += "''" // {+n} of the empty list expands to '' (inside the template's double quotes)
				}
				for i, p := range last.P {
					if i > 0 {
						want += " "
					}
					want += strconv.Itoa(p)
				}
				want += ":"
			}
			if len(want) > 30 { // stay clear of the window's right edge (wrapping inserts control sequences)
				want = want[:30]
			}
			ok := false
			var got string
			dl := time.Now().Add(10 * time.Second)
			for {
				scr := string(s.Screen())
				if i := strings.LastIndex(scr, "OUT:"); i >= 0 {
					e := i + len(want)
					if e > len(scr) {
						e = len(scr)
					}
					got = scr[i:e]
					ok = got == want
				}
				if ok || time.Now().After(dl) {
					break
				}
				time.Sleep(20 * time.Millisecond)
			}
			res.ShownChecked = true
			if !ok {
				add(c20Finding{Kind: "spec", Name: "shown_is_last_output", Impl: got, Expect: want, Liveness: true})
			}
		}
		// ---- correspondence with the model ----
		if predicted && cs.Stream != "batch" {
			mv := c.Model.Call(2001, L(c20Policy, c20Tmpl{ID: 1, Variant: cs.Tmpl}.val(), c20UI{Focus: -1}.val(), L(labels...)))
			if mv.IsList && len(mv.L) >= 6 && len(mv.L[1].L) >= 6 {
				reqs := []Val{}
				for _, p := range mv.L[0].L {
					reqs = append(reqs, p.L[0])
				}
				obs := []Val{}
				for _, stl := range starts {
					obs = append(obs, stl.args())
				}
				flags := mv.L[1].L
				mQuiescent := flags[1].I == 1
				mWant := mv.L[5]
				res.CorrDone = true
				in := map[string]interface{}{"case": cs, "labels": L(labels...).String()}
				_ = in
				if !mQuiescent {
					add(c20Finding{Kind: "corr", Name: "corr:C20.canonical_quiescent", Impl: "n/a", Expect: mv.String()})
				}
				if !mWant.Equal(expv) {
					add(c20Finding{Kind: "corr", Name: "corr:C20.want", Impl: expv.String(), Expect: mWant.String()})
				}
				if cu || !visible {
					ex := c.Model.Call(2004, L(L(reqs...), L(obs...)))
					if ex.I != 1 {
						add(c20Finding{Kind: "corr", Name: "corr:C20.started_subsequence_of_requests", Impl: L(obs...).String(), Expect: "a subsequence of " + L(reqs...).String() + " labels " + L(labels...).String()})
					}
					if visible && len(reqs) > 0 && len(obs) > 0 && !reqs[len(reqs)-1].Equal(obs[len(obs)-1]) {
						add(c20Finding{Kind: "corr", Name: "corr:C20.last_started", Impl: obs[len(obs)-1].String(), Expect: reqs[len(reqs)-1].String()})
					}
				}
			} else {
				add(c20Finding{Kind: "corr", Name: "corr:C20.model_answer", Impl: "n/a", Expect: mv.String()})
			}
		}
		res.AliveAtExit = len(al) > 0
		res.Nontrivial = len(starts) >= 3 && res.Labels >= 4
	} else {
		for time.Since(lastActionAt) < time.Duration(cs.ExitUs)*time.Microsecond {
		}
	}

	// ---- the end of the session ----
	switch cs.Exit {
	case "accept":
		if err := s.Post("accept"); err != nil && !errors.Is(err, ErrGone) && !s.Exited() {
			s.Post("accept")
		}
	case "abort":
		if err := s.Post("abort"); err != nil && !errors.Is(err, ErrGone) && !s.Exited() {
			s.Post("abort")
		}
	default:
		s.Signal(syscall.SIGTERM)
	}
	_, _, ok = s.Wait(10 * time.Second)
	if !ok {
		add(c20Finding{Kind: "spec", Name: "session_ends", Impl: "fzf still running 10 s after " + cs.Exit, Expect: "exit", Liveness: true})
		return
	}
	// SIGKILL has been sent before the process ended; give the kernel a moment to tear the group down
	var surv map[int]string
	for i := 0; i < 4; i++ {
		time.Sleep(50 * time.Millisecond)
		surv = procsWithMarker(marker)
		if len(surv) == 0 {
			break
		}
	}
	c.Rep.mu.Lock()
	c.Rep.SpecChecks++
	c.Rep.mu.Unlock()
	res.Survivors = len(surv)
	if len(surv) > 0 {
		f := c20Finding{Kind: "spec", Name: "none_survives_exit", Impl: fmt.Sprint(surv), Expect: "no process of the session survives"}
		add(f)
	}
	if crash := s.Crash(); crash != "" {
		add(c20Finding{Kind: "spec", Name: "no_crash", Impl: crash, Expect: "no panic"})
	}
	return
}

func c20Check(c *Ctx, cs c20Case) {
	rep := c.Rep
	key, _ := json.Marshal(cs)
	var res c20Result
	for try := 0; try < 3; try++ {
		res = c20Run(c, cs)
		if res.Err != "" {
			rep.Count("infrastructure_retry")
			rep.Count("infra:" + res.Err)
			continue
		}
		live := false
		for _, f := range res.Findings {
			if f.Liveness && f.Known == "" {
				live = true
			}
		}
		safety := false
		for _, f := range res.Findings {
			if !f.Liveness && f.Known == "" {
				safety = true
			}
		}
		if !live || safety || try == 2 {
			break
		}
		rep.Count("liveness_retry")
	}
	if res.Err != "" {
		rep.Count("session_failed_to_run")
		rep.Disagreement(Disagreement{Kind: "corr", Name: "corr:C20.session_runs", Input: cs, Impl: res.Err, Expect: "session starts and answers"})
		return
	}
	rep.mu.Lock()
	rep.ImplTraces++
	rep.mu.Unlock()
	rep.Eval(string(key), res.Nontrivial || cs.Stream != "hist")
	rep.Sample(cs)
	rep.Count("stream=" + cs.Stream)
	rep.Count("kind=" + cs.Kind)
	rep.Count(fmt.Sprintf("tmpl=%d", cs.Tmpl))
	rep.Count("exit=" + cs.Exit)
	rep.CountN("commands_started", res.Starts)
	rep.CountN("commands_killed", res.Killed)
	rep.CountN("labels", res.Labels)
	rep.CountN("checkpoints", res.Checkpoints)
	if res.CorrDone {
		rep.Count("trace_validated")
	}
	if res.ShownChecked {
		rep.Count("window_text_checked")
	}
	if res.AliveAtExit {
		rep.Count("alive_at_exit")
	}
	if res.CatchUpMs > 1500 {
		rep.Count("catch_up_over_1.5s")
	}
	for _, f := range res.Findings {
		rep.Disagreement(Disagreement{Kind: f.Kind, Name: f.Name, Input: cs, Impl: f.Impl, Expect: f.Expect, Known: f.Known})
	}
}

func c20Gen(r *RNG, thorough bool) c20Case {
	kinds := []string{"instant", "short", "slowsilent", "slowverbose", "foreversilent", "foreverinc", "foreverinc", "slowverbose"}
	cs := c20Case{Stream: "hist", Kind: Pick(r, kinds), Tmpl: Pick(r, []int{0, 0, 0, 1, 2, 3}), Exit: Pick(r, []string{"accept", "abort", "sigterm"}), ExitUs: -1}
	cs.Screen = r.Chance(1, 3)
	cs.GapUs = Pick(r, []int{0, 300, 600, 900, 2000})
	n := r.Range(3, 14)
	if thorough {
		n = r.Range(3, 30)
	}
	hidden := false
	for i := 0; i < n; i++ {
		st := c20Step{P: Pick(r, []int{0, 1, 3, 8, 20, 40, 80})}
		switch x := r.Intn(20); {
		case x < 5:
			st.A = "up"
		case x < 8:
			st.A = "down"
		case x < 11:
			st.A = "toggle"
		case x < 13:
			st.A = "put:" + Pick(r, []string{"a", "b", "c"})
		case x < 14:
			st.A = "bs"
		case x < 15:
			st.A = "refresh"
			st.P = Pick(r, []int{30, 50, 80})
		case x < 16:
			st.A = fmt.Sprintf("change:%d", r.Intn(4))
			st.P = Pick(r, []int{30, 50, 80})
		case x < 17:
			st.A = "toggle-preview"
			st.P = Pick(r, []int{30, 50, 80})
			hidden = !hidden
		default:
			st.A = Pick(r, []string{"up", "down", "toggle"})
			k := r.Range(1, 3)
			for j := 0; j < k; j++ {
				st.B = append(st.B, Pick(r, []string{"up", "up", "down", "toggle"}))
			}
		}
		if len(st.B) == 0 && r.Chance(1, 4) {
			st.C = true
		}
		cs.Steps = append(cs.Steps, st)
	}
	// end with a step that changes what the preview depends on
	cs.Steps = append(cs.Steps, c20Step{A: Pick(r, []string{"up", "toggle", "toggle", "put:a", "down", "toggle"}), P: Pick(r, []int{0, 3, 20, 60})})
	if hidden { // end with the window visible so that the final check is meaningful
		cs.Steps = append(cs.Steps, c20Step{A: "toggle-preview", P: 40})
	}
	return cs
}

// c20SelInPlace: a scripted history around non-moving selection changes with a {+n} template.
func c20SelInPlace(r *RNG, i int) c20Case {
	cs := c20Case{Stream: "selinplace", Kind: Pick(r, []string{"instant", "short", "foreverinc", "slowverbose", "foreversilent", "instant"}),
		Tmpl: Pick(r, []int{0, 1, 1}), Exit: Pick(r, []string{"accept", "abort", "sigterm"}), ExitUs: -1}
	p := func() int { return Pick(r, []int{3, 20, 40, 80}) }
	k := 2 + i%2 // items selected
	cs.Steps = append(cs.Steps, c20Step{A: "toggle", P: p(), C: true})
	for j := 1; j < k; j++ {
		cs.Steps = append(cs.Steps, c20Step{A: "up", P: p()}, c20Step{A: "toggle", P: p(), C: true})
	}
	// come back onto a selected item (the cursor is on the last selected one; go down 0..k-1 lines)
	back := r.Intn(k)
	for j := 0; j < back; j++ {
		cs.Steps = append(cs.Steps, c20Step{A: "down", P: p()})
	}
	cs.Steps = append(cs.Steps, c20Step{A: "refresh", P: 60, C: true})                         // settle: the preview is for this state
	cs.Steps = append(cs.Steps, c20Step{A: "toggle", P: Pick(r, []int{40, 80, 150}), C: true}) // OFF, in place
	switch i % 3 {
	case 0: // end here: the final quiescence check sees the non-moving toggle as the last change
	case 1: // and on again, in place
		cs.Steps = append(cs.Steps, c20Step{A: "toggle", P: p(), C: true})
	case 2: // a second one off, after moving onto it
		if back > 0 {
			cs.Steps = append(cs.Steps, c20Step{A: "up", P: p(), C: true}, c20Step{A: "toggle", P: p(), C: true})
		} else {
			cs.Steps = append(cs.Steps, c20Step{A: "up", P: p(), C: true}, c20Step{A: "toggle", P: 80})
		}
	}
	return cs
}

func runC20(c *Ctx) {
	c.Rep.Rule = "pty sessions with a logging preview command (instant / 50 ms / 6 s / never ending, silent or printing; templates with and without {q} and {+n}); random histories of up/down/toggle/typing/backspace/refresh-preview/change-preview/toggle-preview with pauses 0-80 ms and back-to-back groups; dedicated streams: two moves 0.3-1 ms apart, session end with a live / just superseded preview, selection toggled off/on without moving the cursor under a {+n} template, one batched action list; non-trivial = at least 3 commands started and 4 model labels (dedicated streams always); distinct by JSON of the case"
	if c.Replay != "" {
		var cs c20Case
		b, err := os.ReadFile(c.Replay)
		if err == nil {
			var w struct{ Input c20Case }
			if json.Unmarshal(b, &w) == nil && w.Input.Stream != "" {
				cs = w.Input
			} else {
				json.Unmarshal(b, &cs)
			}
		}
		c20Check(c, cs)
		return
	}
	var cases []c20Case
	for _, f := range corpusFiles(c) {
		var cs c20Case
		b, _ := os.ReadFile(f)
		if json.Unmarshal(b, &cs) == nil && cs.Stream != "" {
			cases = append(cases, cs)
			c.Rep.Count("corpus")
		}
	}
	r := c.Rng
	// back-to-back stream (fixed: b3cab5f): two moves 0.3-1 ms apart, six rounds per session, each must catch up
	for i, n := 0, c.N(8, 60); i < n; i++ {
		cs := c20Case{Stream: "b2b", Kind: Pick(r, []string{"foreverinc", "foreverinc", "slowverbose", "foreversilent"}), Tmpl: 0,
			Steps: []c20Step{{A: "up", P: 350, C: true}}, GapUs: r.Range(300, 1000), Exit: "abort", ExitUs: -1}
		for k := 0; k < 6; k++ {
			a := []string{"up", "down"}[k%2]
			cs.Steps = append(cs.Steps, c20Step{A: a, B: []string{a}, P: 250, C: true})
		}
		cases = append(cases, cs)
	}
	// session end with a live preview (fixed: 268c349): no survivor; and inside / after the grace period
	for i, n := 0, c.N(16, 120); i < n; i++ {
		cs := c20Case{Stream: "exit", Kind: Pick(r, []string{"foreversilent", "foreverinc", "slowverbose", "slowsilent"}), Tmpl: Pick(r, []int{0, 2}),
			Exit: Pick(r, []string{"accept", "abort", "sigterm"}), ExitUs: -1}
		switch []int{0, 1, 2, 3, 2, 2, 0, 2}[i%8] {
		case 0: // plain
			cs.Steps = []c20Step{{A: "up", P: 100}}
		case 1: // inside the cancellation grace period of a silent preview
			cs.Kind = "foreversilent"
			cs.Steps = []c20Step{{A: "up", P: 200}, {A: "up", B: []string{}, P: 50}}
			cs.Steps[1].B = []string{"up"}
			cs.ExitUs = r.Range(50, 400) * 1000
		case 2: // right after a superseding move (window between two commands; fixed: 5b17ce0)
			cs.Kind = "foreverinc"
			cs.Steps = []c20Step{{A: "up", P: 350}, {A: "up", B: []string{"up"}, P: 250}}
			cs.GapUs = 200
			cs.ExitUs = r.Range(200, 1200)
		case 3:
			cs.Steps = []c20Step{{A: "toggle", P: 100}, {A: "up", P: 30}}
		}
		cases = append(cases, cs)
	}
	// selection changes that do not move the cursor: select 2-3 items, come back onto a selected one, toggle it off
	// (or another one on) in place; every step is a checkpoint ({+n} must follow the selection)
	for i, n := 0, c.N(8, 48); i < n; i++ {
		cases = append(cases, c20SelInPlace(r, i))
	}
	// one batched action list (known: c20-batched-refresh)
	cases = append(cases, c20Case{Stream: "batch", Kind: "instant", Tmpl: 0, Batch: "up+refresh-preview+down", Exit: "abort", ExitUs: -1,
		Steps: []c20Step{{A: "up", P: 50}}})
	for i, n := 0, c.N(26, 400); i < n; i++ {
		cases = append(cases, c20Gen(r, c.Thorough()))
	}
	par := 10
	var wg sync.WaitGroup
	ch := make(chan c20Case)
	for w := 0; w < par; w++ {
		wg.Add(1)
		go func() {
			defer wg.Done()
			for cs := range ch {
				c20Check(c, cs)
			}
		}()
	}
	for _, cs := range cases {
		ch <- cs
	}
	close(ch)
	wg.Wait()
	// regression witness [render; take; exit; quit_published; spawn; process_end]: a run of the machine of 268c349 (ends with a live
	// command), NOT a run of the machine of the tree (process_end is not enabled before the previewer has stopped)
	sched := L(L(I(6)), L(I(8)), L(I(17)), L(I(18)), L(I(9)), L(I(19)))
	t0 := L(I(1), B(true), B(true), B(true))
	u0 := L(I(0), L(), L())
	w1 := c.Model.Call(2003, L(L(I(1), I(1)), t0, u0, sched))
	w2 := c.Model.Call(2003, L(c20Policy, t0, u0, sched))
	if !(w1.IsList && len(w1.L) == 2 && w1.L[0].I == 1) || !(w2.IsList && len(w2.L) == 2 && w2.L[0].I == 0) {
		c.Rep.Disagreement(Disagreement{Kind: "corr", Name: "corr:C20.exit_window_witness", Input: "render;take;exit;spawn;process_end", Impl: w2.String(), Expect: w1.String()})
	}
}

func init() { runners["C20"] = runC20 }
