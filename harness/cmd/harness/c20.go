package main

// C20 — the preview always catches up with the focused line.
//
// Implementation under test: the fzf binary built from the working tree, driven through pty.go.
// The preview command is a logging script: it appends `start <pid> <id> <kind> N={n} [Q={q}] [P={+n}]` to
// ./LOG (the session's private directory), then behaves according to <kind> (instant, short, slow, never
// ending, silent or printing; or closing its output and running on: kinds eof_*), then appends `end <pid>`.
//
// Checks (spec = PreviewSpec evaluated by the extracted Coq code on what the implementation did):
//   caught_up        (liveness, eventually within 10 s, whole session re-run twice before reporting)
//                    the last `start` line = expansion(template, state from GET /)
//   at_most_one      (safety) a newer command has logged `start` while an older one is still alive
//   no_stale_alive   (safety, at quiescence) every started command but the last is dead
//   none_alive       (safety, after the session ended) no process carrying the session's marker survives
//   shown            (liveness) the last OUT: marker drawn on the terminal is the last command's
//   shows_requested_part (liveness, scroll stream) the interpreted screen's preview window holds the lines of the last
//                    command's output that the request's scroll offset (+SCROLL-OFFSET-/DENOM, ~HEADER) asks for
//   window histories (pwin stream and the random histories): the window is hidden and brought back at run time by
//                    change-preview-window / toggle-preview / hide-preview / show-preview, also from an initially hidden
//                    window; what happened while it was away must be caught up with (caught_up / latest_wins)
// Correspondence (corr): the user labels derived from the GET states are run through the model (canonical
// schedule: every request gets started); the commands the implementation started must be a subsequence of
// the model's requests ending with the same command, and the model must be quiescent and agree on `want`.

import (
	"encoding/json"
	"errors"
	"fmt"
	"os"
	"path/filepath"
	"strconv"
	"strings"
	"sync"
	"sync/atomic"
	"syscall"
	"time"
)

type c20Step struct {
	A string   `json:"a"`           // up down toggle put:<c> bs refresh toggle-preview change:<variant> cpw:<window spec> hide-preview show-preview
	B []string `json:"b,omitempty"` // further actions fired back-to-back after A (gap GapUs), only up/down/toggle
	P int      `json:"p"`           // pause before, ms
	C bool     `json:"c,omitempty"` // checkpoint: after this step wait until the preview has caught up
}

type c20Case struct {
	Stream string    `json:"stream"` // hist | b2b | exit | batch
	Kind   string    `json:"kind"`   // instant short slowsilent slowverbose foreversilent foreverinc
	Tmpl   int       `json:"tmpl"`   // placeholder variant 0: N Q P  1: N P  2: N  3: N Q
	Steps  []c20Step `json:"steps"`
	GapUs  int       `json:"gap_us,omitempty"`
	Exit   string    `json:"exit"`              // accept | abort | sigterm
	ExitUs int       `json:"exit_us,omitempty"` // exit stream: delay between the last action and the exit, µs (-1: after quiescence)
	Batch  string    `json:"batch,omitempty"`   // batch stream: one action list POSTed as is
	Screen bool      `json:"screen,omitempty"`
	Win    string     `json:"win,omitempty"`    // --preview-window of the session without the scroll part (default right,50%)
	Scroll *c20Scroll `json:"scroll,omitempty"` // scroll stream: two-field items, scroll offset spec, numbered output
	Tail   int        `json:"tail,omitempty"`   // tail stream: --tail N on a streaming input (stdin is a pipe that stays open); steps feed:<m> append m lines
	Track  bool       `json:"track,omitempty"`  // tail stream: --track
	Init   int        `json:"init,omitempty"`   // tail stream: lines on the input when the session starts
}

// the scroll offset spec of the session: +[{2}][+Add|-Add][-/Denom] and ~Headers
type c20Scroll struct {
	Field   bool `json:"field"`   // the expression starts with {2} (the item's second field), otherwise with Base
	Base    int  `json:"base"`    // constant first component when !Field
	Add     int  `json:"add"`     // signed constant component (0: none)
	Denom   int  `json:"denom"`   // -/Denom (0: none)
	Headers int  `json:"headers"` // ~Headers (0: none)
}

func (sc c20Scroll) spec() string {
	s := "+"
	if sc.Field {
		s += "{2}"
	} else {
		s += strconv.Itoa(sc.Base)
	}
	if sc.Add > 0 {
		s += "+" + strconv.Itoa(sc.Add)
	} else if sc.Add < 0 {
		s += strconv.Itoa(sc.Add)
	}
	if sc.Denom > 0 {
		s += "-/" + strconv.Itoa(sc.Denom)
	}
	if sc.Headers > 0 {
		s = "~" + strconv.Itoa(sc.Headers) + "," + s
	}
	return s
}

// sum of the signed components for the item with this target line
func (sc c20Scroll) sum(target int) int {
	if sc.Field {
		return target + sc.Add
	}
	return sc.Base + sc.Add
}

// two-field items of the scroll stream: a word and the line of the preview the user wants to see
var c20ScrollTargets = []int{50, 80, 7, 120, 33, 64, 1, 95, 150, 12, 71, 40}

func c20ScrollItems() []string {
	out := []string{}
	for i, t := range c20ScrollTargets {
		out = append(out, fmt.Sprintf("w%02d %d", i, t))
	}
	return out
}

// chunk kinds: chunk_<c1>_<pause1>_<c2>_<pause2>_<total>_<end|hang>: c1 lines, pause1 s, lines up to c2, pause2 s, lines
// up to total, then the command ends or hangs for ever
type c20Chunk struct {
	C1, C2, Total int
	P1, P2        float64
	Hang          bool
}

func c20ParseChunk(kind string) (c20Chunk, bool) {
	f := strings.Split(kind, "_")
	if len(f) != 7 || f[0] != "chunk" {
		return c20Chunk{}, false
	}
	var ck c20Chunk
	ck.C1, _ = strconv.Atoi(f[1])
	ck.P1, _ = strconv.ParseFloat(f[2], 64)
	ck.C2, _ = strconv.Atoi(f[3])
	ck.P2, _ = strconv.ParseFloat(f[4], 64)
	ck.Total, _ = strconv.Atoi(f[5])
	ck.Hang = f[6] == "hang"
	return ck, true
}
func (ck c20Chunk) kind() string {
	t := "end"
	if ck.Hang {
		t = "hang"
	}
	return fmt.Sprintf("chunk_%d_%.2f_%d_%.2f_%d_%s", ck.C1, ck.P1, ck.C2, ck.P2, ck.Total, t)
}

// eof kinds: eof_<lines>_<pre>_<post>: <lines> tagged lines, <pre> s, the command closes its stdout and stderr (fzf
// reads EOF), then it runs on for <post> s, or for ever (post = "hang").  The end of the output and the end of the
// process are different moments; the command stays "the preview command" (superseded -> terminated, none survives).
type c20EOF struct {
	Lines int
	Pre   float64
	Post  float64
	Hang  bool
}

func c20ParseEOF(kind string) (c20EOF, bool) {
	f := strings.Split(kind, "_")
	if len(f) != 4 || f[0] != "eof" {
		return c20EOF{}, false
	}
	var e c20EOF
	e.Lines, _ = strconv.Atoi(f[1])
	e.Pre, _ = strconv.ParseFloat(f[2], 64)
	if f[3] == "hang" {
		e.Hang = true
	} else {
		e.Post, _ = strconv.ParseFloat(f[3], 64)
	}
	return e, true
}
func (e c20EOF) kind() string {
	post := "hang"
	if !e.Hang {
		post = strconv.FormatFloat(e.Post, 'f', -1, 64)
	}
	return fmt.Sprintf("eof_%d_%s_%s", e.Lines, strconv.FormatFloat(e.Pre, 'f', -1, 64), post)
}
func c20GenEOF(r *RNG) string {
	e := c20EOF{Lines: Pick(r, []int{1, 1, 1, 0, 3}), Pre: Pick(r, []float64{0, 0, 0, 0.05, 0.3}), Hang: true}
	if r.Chance(1, 4) {
		e.Hang, e.Post = false, Pick(r, []float64{0.2, 1, 6})
	}
	return e.kind()
}

// the command prints the OUT: marker of its arguments (so the window text can be checked)
func c20KindPrints(kind string) bool {
	if e, ok := c20ParseEOF(kind); ok {
		return e.Lines > 0
	}
	return kind == "instant" || kind == "short" || kind == "slowverbose" || kind == "foreverinc"
}

// hidden flag of the preview window after an action (no alternative layout: activePreviewOpts is previewOpts)
func c20WinHidden(initHidden, hidden bool, a string) bool {
	switch {
	case a == "toggle-preview":
		return !hidden
	case a == "show-preview":
		return false
	case a == "hide-preview":
		return true
	case strings.HasPrefix(a, "cpw:"):
		spec := a[4:]
		if spec == "" {
			return initHidden // the options are reset to the initial ones
		}
		for _, tok := range strings.Split(spec, ",") {
			if tok == "hidden" {
				return true
			}
		}
		return false // a non-empty spec lifts an initial `hidden`
	}
	return hidden
}

type c20Finding struct {
	Kind     string
	Name     string
	Impl     interface{}
	Expect   interface{}
	Liveness bool
	Known    string
}

type c20Result struct {
	Findings     []c20Finding
	Starts       int
	Killed       int
	Labels       int
	CatchUpMs    int64
	Err          string // infrastructure problem (session did not start): not a verdict
	Nontrivial   bool
	AliveAtExit  bool
	Survivors    int
	CorrDone     bool
	Checkpoints  int
	ShownChecked bool
	PartChecked  int
	WinCycles    int
	NoLineChecked int
	Fed           int
	SelTrimmed    int
}

var c20ScriptOnce sync.Once
var c20Script string
var c20Counter int64

const c20ScriptText = `#!/bin/sh
# usage: pv.sh ID KIND N=.. [Q=..] [P=..]
echo "start $$ $*" >> LOG
id=$1; kind=$2; shift; shift
tag="OUT:$id:$*:"
case $kind in
 instant) echo "$tag" ;;
 short) sleep 0.05; echo "$tag" ;;
 slowsilent) sleep 6; echo "$tag" ;;
 slowverbose) echo "$tag"; sleep 6 ;;
 foreversilent) sleep 100000 ;;
 foreverinc) echo "$tag"; while :; do echo x; sleep 0.05; done ;;
 chunk_*)
  n=${1#N=}
  old=$IFS; IFS=_; set -- $kind; IFS=$old
  i=1
  while [ $i -le $2 ]; do echo "L$i:$id:$n"; i=$((i+1)); done
  sleep $3
  while [ $i -le $4 ]; do echo "L$i:$id:$n"; i=$((i+1)); done
  sleep $5
  while [ $i -le $6 ]; do echo "L$i:$id:$n"; i=$((i+1)); done
  [ $7 = hang ] && sleep 100000 ;;
 eof_*)
  # eof_<lines>_<pre>_<post>: print <lines> tagged lines, wait <pre> s, CLOSE the output (stdout and stderr go to
  # /dev/null: fzf reads EOF while this process lives on), then run for <post> s more, or for ever (hang)
  old=$IFS; IFS=_; set -- $kind; IFS=$old
  i=0
  while [ $i -lt $2 ]; do echo "$tag"; i=$((i+1)); done
  [ $3 = 0 ] || sleep $3
  exec >/dev/null 2>&1
  if [ $4 = hang ]; then sleep 100000; else sleep $4; fi ;;
esac
echo "end $$" >> LOG
`

func c20Setup(c *Ctx) {
	c20ScriptOnce.Do(func() {
		os.MkdirAll(c.Work, 0755)
		c20Script = filepath.Join(c.Work, "c20pv.sh")
		os.WriteFile(c20Script, []byte(c20ScriptText), 0755)
	})
}

type c20Tmpl struct {
	ID      int
	Variant int
}

func (t c20Tmpl) plus() bool { return t.Variant == 0 || t.Variant == 1 }
func (t c20Tmpl) q() bool    { return t.Variant == 0 || t.Variant == 3 }
func (t c20Tmpl) cmd(kind string) string {
	s := fmt.Sprintf("sh %s %d %s N={n}", c20Script, t.ID, kind)
	if _, ok := c20ParseEOF(kind); ok {
		// the script must be the process fzf started: a wrapping `sh -c` that stays around would keep the pipe open
		s = "exec " + s
	}
	if t.q() {
		s += " Q={q}"
	}
	if t.plus() {
		s += " \"P={+n}\""
	}
	return s
}
func (t c20Tmpl) val() Val { return L(I(t.ID), B(true), B(t.plus()), B(t.q())) }

type c20UI struct {
	Focus int
	Query string
	Sel   []int
}

func c20UIOf(st *FzfState) c20UI {
	u := c20UI{Focus: -1, Query: st.Query}
	if st.Current != nil {
		u.Focus = st.Current.Index
	}
	for _, s := range st.Selected {
		u.Sel = append(u.Sel, s.Index)
	}
	return u
}
func (u c20UI) val() Val { return L(I(u.Focus), Bytes(u.Query), Ints(u.Sel)) }
func (u c20UI) equal(v c20UI) bool {
	return u.Focus == v.Focus && u.Query == v.Query && fmt.Sprint(u.Sel) == fmt.Sprint(v.Sel)
}

func c20Opt(has bool, v Val) Val {
	if has {
		return L(v)
	}
	return L()
}
func (s c20Start) args() Val {
	p := s.P
	if s.HasP && len(p) == 0 {
		p = []int{-1} // {+n} of the empty list: the (absent) focused line
	}
	return L(I(s.ID), I(s.N), c20Opt(s.HasP, Ints(p)), c20Opt(s.HasQ, Bytes(s.Q)))
}

// diff of two UI states as model labels
func c20Diff(a, b c20UI) []Val {
	var out []Val
	if a.Query != b.Query {
		out = append(out, L(I(1), Bytes(b.Query)))
	}
	if fmt.Sprint(a.Sel) != fmt.Sprint(b.Sel) {
		out = append(out, L(I(2), Ints(b.Sel)))
	}
	if a.Focus != b.Focus {
		out = append(out, L(I(0), I(b.Focus)))
	}
	return out
}

var c20Items = []string{"abc", "acb", "bac", "bca", "cab", "cba", "ab", "ba", "ac", "ca", "bc", "cb", "a", "b", "c",
	"aab", "abb", "bcc", "cca", "aaa", "bbb", "ccc", "abca", "cabc"}

// the machine of the tree: poll (b3cab5f), exit waits for the previewer goroutine (5b17ce0), goroutine 3 is told to
// stop only after cmd.Wait() has returned (third component 0)
var c20Policy = L(I(1), I(2), I(0))

func c20ActionString(a string, kind string, nextID *int, tm *c20Tmpl) (post string, direct int) {
	switch {
	case a == "up" || a == "down" || a == "toggle":
		return a, -1
	case strings.HasPrefix(a, "put:"):
		return "put(" + a[4:] + ")", -1
	case a == "bs":
		return "backward-delete-char", -1
	case a == "refresh":
		return "refresh-preview", 4
	case a == "toggle-preview":
		return "toggle-preview", 5
	case a == "show-preview" || a == "hide-preview":
		return a, 6
	case strings.HasPrefix(a, "cpw:"):
		return "change-preview-window(" + a[4:] + ")", 7
	case strings.HasPrefix(a, "change:"):
		v, _ := strconv.Atoi(a[7:])
		*nextID++
		*tm = c20Tmpl{ID: *nextID, Variant: v}
		return "change-preview(" + tm.cmd(kind) + ")", 3
	}
	return a, -1
}

// predicted effect of up/down/toggle on a known match list (default layout, no cycle, --multi unlimited)
func c20Predict(u c20UI, matches []FzfItem, pos int, a string) (c20UI, int) {
	switch a {
	case "up":
		if pos+1 < len(matches) {
			pos++
		}
	case "down":
		if pos > 0 {
			pos--
		}
	case "toggle":
		if len(matches) > 0 {
			idx := matches[pos].Index
			found := -1
			for i, s := range u.Sel {
				if s == idx {
					found = i
				}
			}
			ns := append([]int{}, u.Sel...)
			if found >= 0 {
				ns = append(ns[:found], ns[found+1:]...)
			} else {
				ns = append(ns, idx)
			}
			u.Sel = ns
		}
	}
	if len(matches) > 0 {
		u.Focus = matches[pos].Index
	}
	return u, pos
}

// classifier of known finding c20-batched-refresh: ONE action list with a cursor-moving action before and after a
// direct preview refresh (refresh-preview, change-preview(..), toggle-preview / show-preview / hide-preview)
func c20BatchedRefreshShape(list string) bool {
	moves := map[string]bool{"up": true, "down": true, "first": true, "last": true, "page-up": true, "page-down": true,
		"half-page-up": true, "half-page-down": true, "toggle+up": true, "toggle+down": true}
	before, direct, after := false, false, false
	for _, a := range strings.Split(list, "+") {
		name := a
		if i := strings.IndexAny(a, "(:"); i >= 0 {
			name = a[:i]
		}
		switch {
		case moves[name]:
			if direct {
				after = true
			} else {
				before = true
			}
		case name == "refresh-preview" || name == "change-preview" || name == "toggle-preview" || name == "show-preview" || name == "hide-preview":
			if before {
				direct = true
			}
		}
	}
	return before && direct && after
}

// the model's scope: a command is started for this state (not the items[0]==nil branch)
func predictedOK(ui c20UI, tm c20Tmpl) bool {
	return !(ui.Focus < 0 && !tm.q() && !(tm.plus() && len(ui.Sel) > 0))
}

func c20ReadLog(s *Session) []c20Start {
	b, _ := os.ReadFile(filepath.Join(s.Dir, "LOG"))
	return parseC20Log(b)
}

// the script shell of a start line is alive
func c20Alive(st c20Start, marker string) bool {
	if !pidAlive(st.Pid) || !pidHasMarker(st.Pid, marker) {
		return false
	}
	cmd, err := os.ReadFile("/proc/" + strconv.Itoa(st.Pid) + "/cmdline")
	if err != nil {
		return false
	}
	want := fmt.Sprintf("c20pv.sh\x00%d\x00%s\x00", st.ID, st.Kind)
	return strings.Contains(string(cmd), want) && pidAlive(st.Pid)
}

func c20AliveList(starts []c20Start, marker string) []int {
	var out []int
	seen := map[int]bool{}
	for i := len(starts) - 1; i >= 0; i-- { // newest first; a reused pid belongs to the newest entry
		if seen[starts[i].Pid] {
			continue
		}
		seen[starts[i].Pid] = true
		if !starts[i].Ended && c20Alive(starts[i], marker) {
			out = append(out, i)
		}
	}
	return out
}

func c20Spec(c *Ctx, tm c20Tmpl, u c20UI, starts []c20Start, alive map[int]bool) (exp Val, caught, noStale, atMost, none bool) {
	cs := []Val{}
	for i, s := range starts {
		cs = append(cs, L(s.args(), B(alive[i]), L()))
	}
	r := c.Model.Call(2002, L(tm.val(), u.val(), L(cs...)))
	if !r.IsList || len(r.L) < 5 {
		return r, false, false, false, false
	}
	return r.L[0], r.L[1].I == 1, r.L[2].I == 1, r.L[3].I == 1, r.L[4].I == 1
}

func c20Run(c *Ctx, cs c20Case) (res c20Result) {
	c20Setup(c)
	marker := fmt.Sprintf("C20MARK=%d_%d", os.Getpid(), atomic.AddInt64(&c20Counter, 1))
	tm := c20Tmpl{ID: 1, Variant: cs.Tmpl}
	nextID := 1
	win := cs.Win
	if win == "" {
		win = "right,50%"
	}
	items := c20Items
	if cs.Scroll != nil {
		win += "," + cs.Scroll.spec()
		items = c20ScrollItems()
	}
	initHidden := c20WinHidden(false, false, "cpw:"+win)
	const cols, rows = 100, 24
	sargs := []string{"--multi", "--no-sort", "--preview", tm.cmd(cs.Kind), "--preview-window", win}
	fed := 0 // tail stream: lines written to the input so far (line k is "t<k>", its index is k)
	if cs.Tail > 0 {
		sargs = append(sargs, "--tail", strconv.Itoa(cs.Tail))
		if cs.Track {
			sargs = append(sargs, "--track")
		}
		items = c20TailLines(0, cs.Init)
		fed = cs.Init
	}
	s, err := StartSession(c, SessionOpts{Args: sargs, Lines: items, Cols: cols, Rows: rows, Env: []string{marker}, StdinPipe: cs.Tail > 0})
	if err != nil {
		res.Err = err.Error()
		return
	}
	defer func() {
		s.Close()
		killMarked(marker)
	}()
	add := func(f c20Finding) { res.Findings = append(res.Findings, f) }
	// the list is read asynchronously: wait until it is complete and the cursor is on the first line
	st, ok := s.WaitFor(func(g *FzfState) bool {
		if cs.Tail > 0 { // the input stays open: the lines fed so far have arrived (the last one is in the list)
			return g.Current != nil && c20HasIndex(g, fed-1)
		}
		return !g.Reading && g.TotalCount == len(items) && g.MatchCount == len(items) && g.Current != nil
	}, 10*time.Second)
	if !ok || st == nil {
		res.Err = "list not loaded within 10 s"
		return
	}
	ui := c20UIOf(st)
	labels := []Val{}
	if initHidden {
		labels = append(labels, L(I(20))) // the session starts with the window hidden
	}
	labels = append(labels, c20Diff(c20UI{Focus: -1}, ui)...)
	visible := !initHidden
	predicted := cs.Tail == 0 || cs.Init <= cs.Tail // more initial lines than the tail keeps: the list was trimmed while loading
	vt := newVT(cols, rows)
	// scroll stream: the window shows the part of the last command's output its request asked for (eventually; the
	// command needs its pauses to produce the output).  Returns nil or the finding.
	partCheck := func(where string) *c20Finding {
		ck, isChunk := c20ParseChunk(cs.Kind)
		if cs.Scroll == nil || !isChunk {
			return nil
		}
		sc := *cs.Scroll
		var seen []int
		var height int
		var top string
		var last c20Start
		var r Val
		okAt := time.Time{}
		starved := false
		t0 := time.Now()
		dl := time.Now().Add(time.Duration((ck.P1+ck.P2)*1000)*time.Millisecond + 10*time.Second)
		for {
			starts := c20ReadLog(s)
			if len(starts) == 0 {
				return nil
			}
			last = starts[len(starts)-1]
			target := 0
			if last.N >= 0 && last.N < len(c20ScrollTargets) {
				target = c20ScrollTargets[last.N]
			}
			vt.Sync(s)
			seen, height, top = c20Pane(vt, last.ID, last.N)
			r = c.Model.Call(2005, L(I(sc.sum(target)), I(sc.Denom), I(height), I(sc.Headers), I(ck.Total), Ints(seen)))
			good := r.IsList && len(r.L) == 4 && r.L[3].I == 1 && (ck.Hang || last.Ended)
			// shape of known finding c20-offset-gate-starves-short-output: a never-ending command that prints no more lines
			// than the requested offset; fzf renders nothing of it however long one waits, so the wait is cut short
			starved = ck.Hang && r.IsList && len(r.L) == 4 && int64(ck.Total) <= r.L[0].I
			if starved && !good && time.Since(t0) > time.Duration((ck.P1+ck.P2)*1000)*time.Millisecond+3*time.Second {
				break
			}
			if good {
				// the content must stay: two more render ticks
				if okAt.IsZero() {
					okAt = time.Now()
				} else if time.Since(okAt) >= 250*time.Millisecond {
					break
				}
			} else {
				okAt = time.Time{}
			}
			if time.Now().After(dl) {
				break
			}
			time.Sleep(20 * time.Millisecond)
		}
		res.PartChecked++
		c.Rep.mu.Lock()
		c.Rep.SpecChecks++
		c.Rep.mu.Unlock()
		if !r.IsList || len(r.L) != 4 {
			return &c20Finding{Kind: "corr", Name: "corr:C20.model_answer", Impl: "n/a", Expect: r.String()}
		}
		req := int(r.L[0].I)
		// correspondence: the scroll machine of the model on the canonical schedule of this script (three ticks in a pause,
		// every result handled before the next tick) ends at the offset the implementation shows
		if !okAt.IsZero() || len(seen) > 0 {
			tick := func(p float64) []Val {
				if p >= 0.3 {
					return []Val{L(I(1), I(2)), L(I(3), I(1)), L(I(1), I(1)), L(I(3), I(1))}
				}
				return nil
			}
			sched := []Val{L(I(0), I(ck.C1))}
			sched = append(sched, tick(ck.P1)...)
			sched = append(sched, L(I(0), I(ck.C2-ck.C1)))
			sched = append(sched, tick(ck.P2)...)
			sched = append(sched, L(I(0), I(ck.Total-ck.C2)))
			if ck.Hang {
				sched = append(sched, tick(1)...)
			} else {
				sched = append(sched, L(I(2), I(1)))
			}
			sched = append(sched, L(I(3), I(1)))
			mv := c.Model.Call(2006, L(I(req), I(sc.Headers), I(0), L(sched...), I(2)))
			hdrRows := 0
			if sc.Headers > 0 && sc.Headers < ck.Total && sc.Headers < height {
				hdrRows = sc.Headers
			}
			if mv.IsList && len(mv.L) == 5 && len(seen) > hdrRows && seen[hdrRows] > 0 {
				mo := int(mv.L[4].I)
				if mo < hdrRows { // an offset inside the header rows looks like the first line below them
					mo = hdrRows
				}
				if mo != seen[hdrRows]-1 {
					res.Findings = append(res.Findings, c20Finding{Kind: "corr", Name: "corr:C20.scroll_machine", Liveness: true,
						Impl: fmt.Sprintf("window offset %d (%s; rows %v)", seen[hdrRows]-1, top, seen), Expect: fmt.Sprintf("offset %d: %s", mv.L[4].I, mv.String())})
				}
			}
		}
		if okAt.IsZero() {
			f := &c20Finding{Kind: "spec", Name: "shows_requested_part", Liveness: true,
				Impl:   fmt.Sprintf("%s: window of %d rows shows lines %v (first row %q) of command %s", where, height, seen, top, last.String()),
				Expect: fmt.Sprintf("scroll %s on %d lines: offset %d, lines %s", sc.spec(), ck.Total, r.L[1].I, r.L[2].String())}
			// known finding c20-offset-gate-starves-short-output, narrow: the command never ends, it has printed no more
			// lines than the requested offset, and no row of the window belongs to it (the window still holds the previous
			// command's output, or nothing when there was none)
			own := 0
			for _, k := range seen {
				if k > 0 {
					own++
				}
			}
			if starved && own == 0 {
				f.Known = "c20-offset-gate-starves-short-output"
			}
			return f
		}
		return nil
	}
	// A state no command belongs to (no line under the cursor, template without {q}, no selection for {+}): the last
	// command is superseded by "no preview": eventually (10 s) nothing of the session's preview commands is alive and the
	// preview window shows nothing (every row of it is blank), and it stays so for 250 ms.  Spec: no_command_state_ok.
	// classifier of known finding c20-shown-again-without-line: the window was brought back by toggle-preview /
	// show-preview in a state no command belongs to, and no state with a command has been seen since
	reshownNoLine := false
	noLineFailed := false
	noLineCheck := func(where string) []c20Finding {
		var out []c20Finding
		var rowsText []string
		var al []int
		var starts []c20Start
		var r Val
		okAt := time.Time{}
		dl := time.Now().Add(10 * time.Second)
		for {
			if g, err := s.Get(); err == nil {
				nu := c20UIOf(g)
				if !nu.equal(ui) {
					labels = append(labels, c20Diff(ui, nu)...)
					ui = nu
				}
			}
			if predictedOK(ui, tm) {
				return nil // the state has changed under us (input arrived): the other checks apply
			}
			starts = c20ReadLog(s)
			al = c20AliveList(starts, marker)
			vt.Sync(s)
			rowsText = c20PaneText(vt)
			seen := []Val{}
			for i, st := range starts {
				a := false
				for _, j := range al {
					a = a || i == j
				}
				seen = append(seen, L(st.args(), B(a), L()))
			}
			r = c.Model.Call(2008, L(tm.val(), ui.val(), L(seen...), I(len(rowsText))))
			good := r.IsList && len(r.L) == 4 && r.L[3].I == 1
			if good {
				if okAt.IsZero() {
					okAt = time.Now()
				} else if time.Since(okAt) >= 250*time.Millisecond {
					break
				}
			} else {
				okAt = time.Time{}
			}
			if time.Now().After(dl) {
				break
			}
			time.Sleep(20 * time.Millisecond)
		}
		res.NoLineChecked++
		c.Rep.mu.Lock()
		c.Rep.SpecChecks++
		c.Rep.mu.Unlock()
		if !r.IsList || len(r.L) != 4 {
			return []c20Finding{{Kind: "corr", Name: "corr:C20.model_answer", Impl: "n/a", Expect: r.String()}}
		}
		if !okAt.IsZero() {
			return nil
		}
		if r.L[0].I == 1 {
			return nil // raced with a state change
		}
		if r.L[2].I != 1 {
			out = append(out, c20Finding{Kind: "spec", Name: "blank_when_no_line", Liveness: true,
				Impl:   fmt.Sprintf("%s: no line under the cursor (ui %+v), yet the preview window shows %d rows of text: %q", where, ui, len(rowsText), c20Head(rowsText, 4)),
				Expect: "no preview command belongs to this state: the window shows nothing"})
		}
		if r.L[1].I != 1 {
			out = append(out, c20Finding{Kind: "spec", Name: "superseded_terminated", Liveness: true,
				Impl:   fmt.Sprint(where, ": no line under the cursor, alive 10 s later: ", al, " of ", starts),
				Expect: "the command of the earlier state is superseded and terminated"})
		}
		if reshownNoLine {
			for i := range out {
				out[i].Known = "c20-shown-again-without-line"
			}
		}
		return out
	}
	// nomatch stream: give the command of the current state the time to produce its output and fzf the time to draw it
	// (not a check: best effort, bounded), so that the next step finds a window that is full of it
	outputSettled := func() {
		dl := time.Now().Add(3 * time.Second)
		stable := 0
		prev := ""
		for time.Now().Before(dl) {
			starts := c20ReadLog(s)
			vt.Sync(s)
			cur := strings.Join(c20PaneText(vt), "|")
			ended := len(starts) > 0 && (starts[len(starts)-1].Ended || !c20Alive(starts[len(starts)-1], marker))
			if cur == prev && cur != "" && (ended || time.Until(dl) < 2200*time.Millisecond) {
				stable++
				if stable >= 4 {
					return
				}
			} else {
				stable = 0
			}
			prev = cur
			time.Sleep(30 * time.Millisecond)
		}
	}
	safety := func() {
		starts := c20ReadLog(s)
		al := c20AliveList(starts, marker)
		if len(al) >= 2 {
			// al is newest first: an older command alive although a newer one has logged its start
			time.Sleep(2 * time.Millisecond)
			if c20Alive(starts[al[len(al)-1]], marker) {
				add(c20Finding{Kind: "spec", Name: "at_most_one_alive", Impl: fmt.Sprint("alive together: ", starts[al[0]], " and ", starts[al[len(al)-1]]), Expect: "a command is started only after the previous one is dead"})
			}
		}
	}
	settleQuery := func(want string) *FzfState {
		deadline := time.Now().Add(3 * time.Second)
		var last *FzfState
		stable := 0
		for time.Now().Before(deadline) {
			g, err := s.Get()
			if err != nil {
				return last
			}
			if last != nil && g.Query == want && g.MatchCount == last.MatchCount && c20UIOf(g).equal(c20UIOf(last)) {
				stable++
				if stable >= 2 {
					return g
				}
			} else {
				stable = 0
			}
			last = g
			time.Sleep(6 * time.Millisecond)
		}
		return last
	}
	var lastActionAt time.Time
	checkpointFailed := false
	for _, stp := range cs.Steps {
		wasVisible := visible
		if s.Exited() {
			break
		}
		if stp.P > 0 {
			time.Sleep(time.Duration(stp.P) * time.Millisecond)
		}
		post, direct := c20ActionString(stp.A, cs.Kind, &nextID, &tm)
		if len(stp.B) == 0 {
			feedN := 0
			if strings.HasPrefix(stp.A, "feed:") && cs.Tail > 0 {
				// new input arrives (not a user action: the list, and with --tail the selection, change under the user)
				feedN, _ = strconv.Atoi(stp.A[5:])
				if feedN < 1 {
					feedN = 1
				}
				if err := s.Feed([]byte(strings.Join(c20TailLines(fed, feedN), "\n") + "\n")); err != nil {
					res.Err = "feed: " + err.Error()
					return
				}
				fed += feedN
				res.Fed += feedN
			} else if err := s.PostSync(post); err != nil {
				res.Err = "post " + post + ": " + err.Error()
				return
			}
			lastActionAt = time.Now()
			var g *FzfState
			if feedN > 0 {
				g, _ = s.WaitFor(func(g *FzfState) bool { return c20HasIndex(g, fed-1) }, 5*time.Second)
				if g == nil {
					g, _ = s.Get()
				}
			} else if strings.HasPrefix(stp.A, "put:") || stp.A == "bs" {
				want := ui.Query
				if stp.A == "bs" {
					if len(want) > 0 {
						want = want[:len(want)-1]
					}
				} else {
					want += stp.A[4:]
				}
				g = settleQuery(want)
			} else {
				g, _ = s.Get()
			}
			if g == nil {
				res.Err = "GET failed"
				return
			}
			nu := c20UIOf(g)
			labels = append(labels, c20Diff(ui, nu)...)
			if feedN > 0 {
				// new input that trims the list gives the list a new revision, and a new revision makes the render loop ask
				// for the preview of the (new) current state again even when nothing the command depends on has changed
				// (t.version++ in UpdateList): for the model one more request for the current state (label refresh; a request
				// that is never started is allowed: the started commands are a subsequence of the requests).  Several lines
				// may arrive in several batches with states in between that GET / never showed: no trace validation then.
				labels = append(labels, L(I(4)))
				if feedN > 1 {
					predicted = false
				}
				if fmt.Sprint(ui.Sel) != fmt.Sprint(nu.Sel) {
					res.SelTrimmed++
				}
			}
			ui = nu
			switch direct {
			case 3:
				labels = append(labels, L(I(3), tm.val()))
			case 4:
				labels = append(labels, L(I(4)))
			case 5:
				labels = append(labels, L(I(5)))
				visible = !visible
			case 6: // show-preview / hide-preview: a toggle when it applies
				if nh := c20WinHidden(initHidden, !visible, stp.A); nh == visible {
					labels = append(labels, L(I(5)))
					visible = !nh
				}
			case 7: // change-preview-window
				nh := c20WinHidden(initHidden, !visible, stp.A)
				if nh {
					labels = append(labels, L(I(20)))
				} else {
					labels = append(labels, L(I(21)))
					if !visible {
						res.WinCycles++
					}
				}
				visible = !nh
			}
			st = g
		} else {
			// back-to-back group: predicted intermediate states
			acts := append([]string{stp.A}, stp.B...)
			g0, err := s.Get()
			if err != nil {
				res.Err = err.Error()
				return
			}
			pu := c20UIOf(g0)
			labels = append(labels, c20Diff(ui, pu)...)
			pos := g0.Position
			posts := []string{}
			for _, a := range acts {
				p, _ := c20ActionString(a, cs.Kind, &nextID, &tm)
				posts = append(posts, p)
				nu, np := c20Predict(pu, g0.Matches, pos, a)
				labels = append(labels, c20Diff(pu, nu)...)
				pu, pos = nu, np
			}
			if err := s.PostBurst(posts, time.Duration(cs.GapUs)*time.Microsecond); err != nil {
				res.Err = "burst: " + err.Error()
				return
			}
			lastActionAt = time.Now()
			if cs.Stream == "exit" && cs.ExitUs >= 0 {
				ui = pu
				break
			}
			s.Sync()
			g, err := s.Get()
			if err != nil {
				res.Err = err.Error()
				return
			}
			if !c20UIOf(g).equal(pu) {
				predicted = false
				labels = append(labels, c20Diff(pu, c20UIOf(g))...)
			}
			ui = c20UIOf(g)
			st = g
		}
		safety()
		if predictedOK(ui, tm) {
			reshownNoLine = false
		} else if (direct == 5 || direct == 6) && !wasVisible && visible && len(stp.B) == 0 {
			reshownNoLine = true
		}
		if stp.C && visible && predictedOK(ui, tm) {
			// checkpoint (liveness): the command for the state reached now gets started
			dl := time.Now().Add(10 * time.Second)
			okc := false
			var expv Val
			var starts []c20Start
			for {
				if g, err := s.Get(); err == nil {
					nu := c20UIOf(g)
					if !nu.equal(ui) {
						labels = append(labels, c20Diff(ui, nu)...)
						ui = nu
					}
				}
				if !predictedOK(ui, tm) {
					okc = true
					break
				}
				starts = c20ReadLog(s)
				expv, okc, _, _, _ = c20Spec(c, tm, ui, starts, nil)
				if okc || time.Now().After(dl) {
					break
				}
				time.Sleep(5 * time.Millisecond)
			}
			res.Checkpoints++
			if !okc {
				last := "(no command was started)"
				if len(starts) > 0 {
					last = starts[len(starts)-1].String()
				}
				checkpointFailed = true
				add(c20Finding{Kind: "spec", Name: "latest_wins", Impl: "checkpoint after step " + stp.A + ": last started: " + last, Expect: "command for the current state: " + expv.String() + fmt.Sprintf(" (ui %+v)", ui), Liveness: true})
				break
			}
			if predictedOK(ui, tm) {
				if f := partCheck("checkpoint after step " + stp.A); f != nil {
					add(*f)
					if f.Known == "" {
						break
					}
				}
				if cs.Stream == "nomatch" {
					outputSettled()
				}
			}
		} else if stp.C && visible && !predictedOK(ui, tm) {
			// checkpoint in a state no command belongs to (no line under the cursor, nothing else to substitute)
			if fs := noLineCheck("checkpoint after step " + stp.A); len(fs) > 0 {
				for _, f := range fs {
					add(f)
				}
				noLineFailed = true // already waited 10 s for this very state
				break
			}
		}
	}
	if cs.Batch != "" {
		// one action list as is; the model labels are not derived (known-finding stream)
		predicted = false
		if err := s.PostSync(cs.Batch); err != nil {
			res.Err = "batch: " + err.Error()
			return
		}
		if g, err := s.Get(); err == nil {
			ui = c20UIOf(g)
		}
	}
	res.Labels = len(labels)

	exitInWindow := cs.Stream == "exit" && cs.ExitUs >= 0
	if !exitInWindow {
		// ---- quiescence: eventually (10 s) the last start line is the command for the current state ----
		t0 := time.Now()
		deadline := t0.Add(10 * time.Second)
		if checkpointFailed { // already waited 10 s for this very state
			deadline = t0.Add(time.Second)
		}
		var starts []c20Start
		var expv Val
		caught := false
		lastLen := -1
		lastChange := time.Now()
		for {
			g, err := s.Get()
			if err != nil {
				res.Err = "GET at quiescence: " + err.Error()
				return
			}
			nu := c20UIOf(g)
			if !nu.equal(ui) {
				labels = append(labels, c20Diff(ui, nu)...)
				ui = nu
				lastChange = time.Now()
			}
			starts = c20ReadLog(s)
			if len(starts) != lastLen {
				lastLen = len(starts)
				lastChange = time.Now()
			}
			var cu bool
			expv, cu, _, _, _ = c20Spec(c, tm, ui, starts, nil)
			caught = cu || !visible || (ui.Focus < 0 && !tm.q() && !(tm.plus() && len(ui.Sel) > 0))
			if caught && time.Since(lastChange) >= 300*time.Millisecond {
				break
			}
			if time.Now().After(deadline) {
				break
			}
			time.Sleep(10 * time.Millisecond)
		}
		res.CatchUpMs = time.Since(t0).Milliseconds()
		res.Starts = len(starts)
		c.Rep.mu.Lock()
		c.Rep.SpecChecks++
		c.Rep.mu.Unlock()
		al := c20AliveList(starts, marker)
		alive := map[int]bool{}
		for _, i := range al {
			alive[i] = true
		}
		_, cu, noStale, atMost, _ := c20Spec(c, tm, ui, starts, alive)
		// items[0] == nil branch (empty list, template without {q} and no selection to show): fzf starts no command and
		// blanks the window; outside the model's scope, only the safety checks apply
		unforced := ui.Focus < 0 && !tm.q() && !(tm.plus() && len(ui.Sel) > 0)
		if unforced {
			c.Rep.Count("empty_list_unforced_template")
			predicted = false
			if !cu {
				cu = true
				noStale = true
			}
		}
		for i, stl := range starts {
			if !stl.Ended && !alive[i] {
				res.Killed++
			}
		}
		if visible && !cu {
			last := "(no command was started)"
			if len(starts) > 0 {
				last = starts[len(starts)-1].String()
			}
			f := c20Finding{Kind: "spec", Name: "latest_wins", Impl: "last started: " + last, Expect: "command for the current state: " + expv.String() + fmt.Sprintf(" (ui %+v)", ui), Liveness: true}
			if cs.Stream == "batch" && c20BatchedRefreshShape(cs.Batch) {
				f.Known = "c20-batched-refresh"
			}
			add(f)
			// the deadline has passed and the preview has not caught up: whatever is alive now and is not the command for
			// the current state has been superseded for (almost) 10 s, far beyond the 500 ms grace period
			if !noStale {
				g := c20Finding{Kind: "spec", Name: "superseded_terminated", Impl: fmt.Sprint("alive 10 s after the last action: ", al, " of ", starts), Expect: "superseded commands are terminated; command for the current state: " + expv.String(), Liveness: true, Known: f.Known}
				add(g)
			}
		}
		if !atMost {
			add(c20Finding{Kind: "spec", Name: "at_most_one_alive", Impl: fmt.Sprint("alive at quiescence: ", al, " of ", starts), Expect: "at most one"})
		}
		if visible && cu && !noStale {
			add(c20Finding{Kind: "spec", Name: "superseded_get_cancel", Impl: fmt.Sprint("alive at quiescence: ", al, " of ", starts), Expect: "only the last started command may be alive"})
		}
		// ---- no line under the cursor and nothing else to substitute: no command belongs to the state ----
		if visible && unforced && !noLineFailed {
			for _, f := range noLineCheck("at quiescence") {
				add(f)
			}
		}
		// ---- the part of the output the window shows (scroll stream) ----
		if visible && cu && !unforced {
			if f := partCheck("at quiescence"); f != nil {
				add(*f)
			}
		}
		// ---- preview window text ----
		if visible && cu && !unforced && len(starts) > 0 && c20KindPrints(cs.Kind) {
			last := starts[len(starts)-1]
			want := fmt.Sprintf("OUT:%d:N=", last.ID)
			if last.N >= 0 {
				want += strconv.Itoa(last.N)
			}
			if last.HasQ {
				want += " Q=" + last.Q
			}
			want += " "
			if !last.HasP {
				want = strings.TrimSuffix(want, " ") + ":"
			} else {
				want += "P="
			}
			if last.HasP {
				if len(last.P) == 0 {
					want += "''" // {+n} of the empty list expands to '' (inside the template's double quotes)
				}
				for i, p := range last.P {
					if i > 0 {
						want += " "
					}
					want += strconv.Itoa(p)
				}
				want += ":"
			}
			if len(want) > 30 { // stay clear of the window's right edge (wrapping inserts control sequences)
				want = want[:30]
			}
			ok := false
			var got string
			dl := time.Now().Add(10 * time.Second)
			for {
				scr := string(s.Screen())
				if i := strings.LastIndex(scr, "OUT:"); i >= 0 {
					e := i + len(want)
					if e > len(scr) {
						e = len(scr)
					}
					got = scr[i:e]
					ok = got == want
				}
				if ok || time.Now().After(dl) {
					break
				}
				time.Sleep(20 * time.Millisecond)
			}
			res.ShownChecked = true
			if !ok {
				add(c20Finding{Kind: "spec", Name: "shown_is_last_output", Impl: got, Expect: want, Liveness: true})
			}
		}
		// ---- correspondence with the model ----
		if predicted && cs.Stream != "batch" {
			// canonical schedule of the model: instant commands (2001), or commands that print, close their output and
			// run on until they are killed (2007) for the kinds that do so
			op := 2001
			if e, ok := c20ParseEOF(cs.Kind); ok && e.Hang {
				op = 2007
			}
			mv := c.Model.Call(op, L(c20Policy, c20Tmpl{ID: 1, Variant: cs.Tmpl}.val(), c20UI{Focus: -1}.val(), L(labels...)))
			if mv.IsList && len(mv.L) >= 6 && len(mv.L[1].L) >= 6 {
				reqs := []Val{}
				for _, p := range mv.L[0].L {
					reqs = append(reqs, p.L[0])
				}
				obs := []Val{}
				for _, stl := range starts {
					obs = append(obs, stl.args())
				}
				flags := mv.L[1].L
				mQuiescent := flags[1].I == 1
				mWant := mv.L[5]
				res.CorrDone = true
				in := map[string]interface{}{"case": cs, "labels": L(labels...).String()}
				_ = in
				if !mQuiescent {
					add(c20Finding{Kind: "corr", Name: "corr:C20.canonical_quiescent", Impl: "n/a", Expect: mv.String()})
				}
				if !mWant.Equal(expv) {
					add(c20Finding{Kind: "corr", Name: "corr:C20.want", Impl: expv.String(), Expect: mWant.String()})
				}
				if cu || !visible {
					ex := c.Model.Call(2004, L(L(reqs...), L(obs...)))
					if ex.I != 1 {
						add(c20Finding{Kind: "corr", Name: "corr:C20.started_subsequence_of_requests", Impl: L(obs...).String(), Expect: "a subsequence of " + L(reqs...).String() + " labels " + L(labels...).String()})
					}
					if visible && len(reqs) > 0 && len(obs) > 0 && !reqs[len(reqs)-1].Equal(obs[len(obs)-1]) {
						add(c20Finding{Kind: "corr", Name: "corr:C20.last_started", Impl: obs[len(obs)-1].String(), Expect: reqs[len(reqs)-1].String()})
					}
				}
			} else {
				add(c20Finding{Kind: "corr", Name: "corr:C20.model_answer", Impl: "n/a", Expect: mv.String()})
			}
		}
		res.AliveAtExit = len(al) > 0
		res.Nontrivial = len(starts) >= 3 && res.Labels >= 4
	} else {
		for time.Since(lastActionAt) < time.Duration(cs.ExitUs)*time.Microsecond {
		}
	}

	// ---- the end of the session ----
	switch cs.Exit {
	case "accept":
		if err := s.Post("accept"); err != nil && !errors.Is(err, ErrGone) && !s.Exited() {
			s.Post("accept")
		}
	case "abort":
		if err := s.Post("abort"); err != nil && !errors.Is(err, ErrGone) && !s.Exited() {
			s.Post("abort")
		}
	default:
		s.Signal(syscall.SIGTERM)
	}
	_, _, ok = s.Wait(10 * time.Second)
	if !ok {
		add(c20Finding{Kind: "spec", Name: "session_ends", Impl: "fzf still running 10 s after " + cs.Exit, Expect: "exit", Liveness: true})
		return
	}
	// SIGKILL has been sent before the process ended; give the kernel a moment to tear the group down
	var surv map[int]string
	for i := 0; i < 4; i++ {
		time.Sleep(50 * time.Millisecond)
		surv = procsWithMarker(marker)
		if len(surv) == 0 {
			break
		}
	}
	c.Rep.mu.Lock()
	c.Rep.SpecChecks++
	c.Rep.mu.Unlock()
	res.Survivors = len(surv)
	if len(surv) > 0 {
		f := c20Finding{Kind: "spec", Name: "none_survives_exit", Impl: fmt.Sprint(surv), Expect: "no process of the session survives"}
		add(f)
	}
	if crash := s.Crash(); crash != "" {
		add(c20Finding{Kind: "spec", Name: "no_crash", Impl: crash, Expect: "no panic"})
	}
	return
}

func c20Check(c *Ctx, cs c20Case) {
	rep := c.Rep
	key, _ := json.Marshal(cs)
	var res c20Result
	for try := 0; try < 3; try++ {
		res = c20Run(c, cs)
		if res.Err != "" {
			rep.Count("infrastructure_retry")
			rep.Count("infra:" + res.Err)
			continue
		}
		live := false
		for _, f := range res.Findings {
			if f.Liveness && f.Known == "" {
				live = true
			}
		}
		safety := false
		for _, f := range res.Findings {
			if !f.Liveness && f.Known == "" {
				safety = true
			}
		}
		if !live || safety || try == 2 {
			break
		}
		rep.Count("liveness_retry")
	}
	if res.Err != "" {
		rep.Count("session_failed_to_run")
		rep.Disagreement(Disagreement{Kind: "corr", Name: "corr:C20.session_runs", Input: cs, Impl: res.Err, Expect: "session starts and answers"})
		return
	}
	rep.mu.Lock()
	rep.ImplTraces++
	rep.mu.Unlock()
	rep.Eval(string(key), res.Nontrivial || cs.Stream != "hist")
	rep.Sample(cs)
	rep.Count("stream=" + cs.Stream)
	if _, isChunk := c20ParseChunk(cs.Kind); isChunk {
		rep.Count("kind=chunk")
	} else if e, isEOF := c20ParseEOF(cs.Kind); isEOF {
		rep.Count("kind=eof")
		if e.Hang {
			rep.Count("kind=eof_then_never_ending")
		}
	} else {
		rep.Count("kind=" + cs.Kind)
	}
	rep.Count(fmt.Sprintf("tmpl=%d", cs.Tmpl))
	rep.Count("exit=" + cs.Exit)
	rep.CountN("commands_started", res.Starts)
	rep.CountN("commands_killed", res.Killed)
	rep.CountN("labels", res.Labels)
	rep.CountN("checkpoints", res.Checkpoints)
	if res.CorrDone {
		rep.Count("trace_validated")
	}
	if res.ShownChecked {
		rep.Count("window_text_checked")
	}
	rep.CountN("window_part_checked", res.PartChecked)
	rep.CountN("window_hidden_and_back_by_cpw", res.WinCycles)
	rep.CountN("no_line_state_checked", res.NoLineChecked)
	rep.CountN("input_lines_fed_at_run_time", res.Fed)
	rep.CountN("selection_trimmed_by_new_input", res.SelTrimmed)
	if cs.Tail > 0 {
		rep.Count(fmt.Sprintf("tail=%d track=%v", cs.Tail, cs.Track))
	}
	if cs.Win != "" {
		rep.Count("win=" + cs.Win)
	}
	if cs.Scroll != nil {
		rep.Count("scroll=" + cs.Scroll.spec())
	}
	if res.AliveAtExit {
		rep.Count("alive_at_exit")
	}
	if res.CatchUpMs > 1500 {
		rep.Count("catch_up_over_1.5s")
	}
	for _, f := range res.Findings {
		rep.Disagreement(Disagreement{Kind: f.Kind, Name: f.Name, Input: cs, Impl: f.Impl, Expect: f.Expect, Known: f.Known})
	}
}

func c20Gen(r *RNG, thorough bool) c20Case {
	kinds := []string{"instant", "short", "slowsilent", "slowverbose", "foreversilent", "foreverinc", "foreverinc", "slowverbose", "eof", "eof"}
	kind := Pick(r, kinds)
	if kind == "eof" { // the output ends before the command does
		kind = c20GenEOF(r)
	}
	cs := c20Case{Stream: "hist", Kind: kind, Tmpl: Pick(r, []int{0, 0, 0, 1, 2, 3}), Exit: Pick(r, []string{"accept", "abort", "sigterm"}), ExitUs: -1}
	cs.Screen = r.Chance(1, 3)
	cs.GapUs = Pick(r, []int{0, 300, 600, 900, 2000})
	n := r.Range(3, 14)
	if thorough {
		n = r.Range(3, 30)
	}
	hidden := false
	for i := 0; i < n; i++ {
		st := c20Step{P: Pick(r, []int{0, 1, 3, 8, 20, 40, 80})}
		switch x := r.Intn(23); {
		case x < 5:
			st.A = "up"
		case x < 8:
			st.A = "down"
		case x < 11:
			st.A = "toggle"
		case x < 13:
			st.A = "put:" + Pick(r, []string{"a", "b", "c"})
		case x < 14:
			st.A = "bs"
		case x < 15:
			st.A = "refresh"
			st.P = Pick(r, []int{30, 50, 80})
		case x < 16:
			st.A = fmt.Sprintf("change:%d", r.Intn(4))
			st.P = Pick(r, []int{30, 50, 80})
		case x < 17:
			st.A = "toggle-preview"
			st.P = Pick(r, []int{30, 50, 80})
			hidden = !hidden
		case x < 19:
			// the window is hidden / brought back / laid out differently through change-preview-window
			if hidden {
				st.A = "cpw:" + Pick(r, c20ShowSpecs)
			} else {
				st.A = "cpw:" + Pick(r, []string{"hidden", "hidden", "left", "up,50%", "right,60%", "down,40%,hidden"})
			}
			st.P = Pick(r, []int{30, 50, 80})
			hidden = c20WinHidden(false, hidden, st.A)
		case x < 20:
			st.A = Pick(r, []string{"hide-preview", "show-preview"})
			st.P = Pick(r, []int{30, 50, 80})
			hidden = c20WinHidden(false, hidden, st.A)
		default:
			st.A = Pick(r, []string{"up", "down", "toggle"})
			k := r.Range(1, 3)
			for j := 0; j < k; j++ {
				st.B = append(st.B, Pick(r, []string{"up", "up", "down", "toggle"}))
			}
		}
		if len(st.B) == 0 && r.Chance(1, 4) {
			st.C = true
		}
		cs.Steps = append(cs.Steps, st)
	}
	// end with a step that changes what the preview depends on
	cs.Steps = append(cs.Steps, c20Step{A: Pick(r, []string{"up", "toggle", "toggle", "put:a", "down", "toggle"}), P: Pick(r, []int{0, 3, 20, 60})})
	if hidden { // end with the window visible so that the final check is meaningful
		cs.Steps = append(cs.Steps, c20Step{A: Pick(r, []string{"toggle-preview", "show-preview", "cpw:", "cpw:left", "cpw:right,60%"}), P: 40})
	}
	return cs
}

// window specs that bring a hidden window back (wide enough for the OUT: marker: at least 40 columns)
var c20ShowSpecs = []string{"", "left", "up,50%", "right,60%", "down,40%", "right,50%"}

// c20WinCase: the window is taken away at run time (change-preview-window(hidden), toggle-preview, hide-preview) or is
// hidden from the start; the cursor moves / the selection or the query changes while it is away; it is brought back
// (change-preview-window with some layout, toggle-preview, show-preview): the preview must catch up with what
// happened meanwhile.  Also plain layout changes of a visible window.
func c20WinCase(r *RNG, i int) c20Case {
	cs := c20Case{Stream: "pwin", Kind: Pick(r, []string{"instant", "instant", "short", "foreverinc", "slowverbose", "foreversilent", "eof_1_0_hang"}),
		Tmpl: Pick(r, []int{0, 0, 2, 3, 1}), Exit: Pick(r, []string{"accept", "abort", "sigterm"}), ExitUs: -1}
	p := func() int { return Pick(r, []int{20, 40, 60, 100, 150}) }
	initHidden := i%4 == 3
	hidden := initHidden
	if initHidden {
		cs.Win = Pick(r, []string{"right,50%,hidden", "hidden", "left,hidden"})
	} else {
		cs.Steps = append(cs.Steps, c20Step{A: Pick(r, []string{"up", "toggle", "up"}), P: p(), C: true})
	}
	rounds := r.Range(1, 2)
	for k := 0; k < rounds; k++ {
		if !hidden {
			a := Pick(r, []string{"cpw:hidden", "cpw:hidden", "toggle-preview", "hide-preview", "cpw:left,hidden"})
			cs.Steps = append(cs.Steps, c20Step{A: a, P: p()})
			hidden = true
		}
		// something the preview depends on changes while the window is away
		n := r.Range(1, 3)
		for j := 0; j < n; j++ {
			a := Pick(r, []string{"up", "up", "down", "toggle", "put:a", "up"})
			if j == 0 {
				a = Pick(r, []string{"up", "up", "toggle", "up"})
			}
			cs.Steps = append(cs.Steps, c20Step{A: a, P: p()})
		}
		var a string
		for {
			a = Pick(r, []string{"cpw:", "cpw:", "cpw:left", "cpw:up,50%", "cpw:right,60%", "toggle-preview", "show-preview", "cpw:down,40%"})
			if !c20WinHidden(initHidden, hidden, a) {
				break
			}
		}
		cs.Steps = append(cs.Steps, c20Step{A: a, P: p(), C: true})
		hidden = false
		if r.Chance(1, 2) { // a layout change of the visible window, then a move
			cs.Steps = append(cs.Steps, c20Step{A: "cpw:" + Pick(r, []string{"left", "up,50%", "right,60%", "down,40%"}), P: p(), C: true})
		}
		cs.Steps = append(cs.Steps, c20Step{A: Pick(r, []string{"up", "down", "toggle"}), P: p(), C: true})
	}
	return cs
}

// c20StarvedCase: the shape of known finding c20-offset-gate-starves-short-output: a never-ending command whose output
// (20-60 lines) is shorter than the offset requested for some of the items (targets 80, 120, 95, 150 ...) and longer
// for others (7, 1, 12), so that both the finding and the working case are seen in one session.
func c20StarvedCase(r *RNG, i int) c20Case {
	sc := c20Scroll{Field: true}
	if i%2 == 1 {
		sc.Add = -Pick(r, []int{3, 5})
	}
	ck := c20Chunk{Total: Pick(r, []int{20, 40, 60}), Hang: true, C1: Pick(r, []int{1, 5, 10}), P1: Pick(r, []float64{0.0, 0.35})}
	ck.C2 = ck.C1
	cs := c20Case{Stream: "starved", Kind: ck.kind(), Tmpl: 2, Exit: Pick(r, []string{"accept", "abort", "sigterm"}), ExitUs: -1,
		Win: Pick(r, []string{"right,50%", "left,50%"}), Scroll: &sc}
	for k := 0; k < 2; k++ {
		cs.Steps = append(cs.Steps, c20Step{A: "up", P: Pick(r, []int{20, 80}), C: true})
	}
	return cs
}

// c20ScrollCase: a scroll offset in --preview-window and a command whose numbered output arrives in chunks (some lines,
// a pause of several render ticks, more lines, ... then the end or a hang): after each move the window must show the
// requested part of the output of the command for the focused line.
func c20ScrollCase(r *RNG, i int) c20Case {
	sc := c20Scroll{Field: true}
	switch i % 6 {
	case 0:
		sc.Denom = 2
	case 1:
		sc.Add = -Pick(r, []int{3, 5, 10})
	case 2:
	case 3:
		sc.Add, sc.Denom = 3, Pick(r, []int{2, 3})
		sc.Headers = 3
	case 4:
		sc.Field, sc.Base = false, Pick(r, []int{20, 35, 60})
	case 5:
		sc.Denom = Pick(r, []int{2, 3, 4})
		sc.Headers = Pick(r, []int{0, 1, 2})
	}
	ck := c20Chunk{Total: Pick(r, []int{100, 160, 200}), Hang: r.Chance(1, 4)}
	if ck.Hang {
		// a never-ending command is rendered only once it has printed more lines than the requested offset (the
		// largest one here is 153): an output that stays shorter is never shown at all (known finding
		// c20-offset-gate-starves-short-output; generated separately by c20StarvedCase)
		ck.Total = 200
	}
	ck.C1 = Pick(r, []int{1, 2, 5, 5, 10, 25, 40, 70})
	ck.P1 = Pick(r, []float64{0.35, 0.45, 0.6})
	ck.C2 = ck.C1
	if r.Chance(1, 3) { // a second chunk and pause
		ck.C2 = ck.C1 + Pick(r, []int{1, 5, 20, 50})
		ck.P2 = Pick(r, []float64{0.35, 0.5})
	}
	if ck.C2 > ck.Total {
		ck.C2 = ck.Total
	}
	cs := c20Case{Stream: "scroll", Kind: ck.kind(), Tmpl: 2, Exit: Pick(r, []string{"accept", "abort", "sigterm"}), ExitUs: -1,
		Win: Pick(r, []string{"right,50%", "left,50%", "right,60%"}), Scroll: &sc, GapUs: Pick(r, []int{300, 900, 2000})}
	n := r.Range(2, 3)
	for k := 0; k < n; k++ {
		st := c20Step{A: Pick(r, []string{"up", "up", "up", "down"}), P: Pick(r, []int{0, 20, 80}), C: true}
		if r.Chance(1, 4) {
			st.B = []string{Pick(r, []string{"up", "up", "down"})}
		}
		cs.Steps = append(cs.Steps, st)
	}
	return cs
}

// c20EofCase: preview commands whose OUTPUT ends before they do (they print, close stdout/stderr and run on, for ever
// or for a while).  For fzf the end of the output is not the end of the command: it stays the one preview command
// that is alive, it must be terminated when it is superseded (at any distance from its EOF: long after it, around it,
// before it) and it must not survive the session (ended after quiescence, with no action at all, or right after a
// superseding move).  Shapes by i%5; all pauses, actions and kinds from the generator.
func c20EofCase(r *RNG, i int) c20Case {
	cs := c20Case{Stream: "eof", Kind: c20GenEOF(r), Tmpl: Pick(r, []int{0, 0, 1, 2, 3}),
		Exit: Pick(r, []string{"accept", "abort", "sigterm"}), ExitUs: -1, GapUs: Pick(r, []int{0, 300, 900, 2000})}
	act := func() string { return Pick(r, []string{"up", "up", "down", "toggle", "up", "put:a", "refresh"}) }
	switch i % 5 {
	case 0: // superseded long after its output has ended: every step waits for the previous command's EOF
		n := r.Range(2, 4)
		for k := 0; k < n; k++ {
			cs.Steps = append(cs.Steps, c20Step{A: act(), P: Pick(r, []int{250, 400, 600}), C: true})
		}
	case 1: // superseded around / before the end of its output, also in back-to-back groups
		n := r.Range(3, 6)
		for k := 0; k < n; k++ {
			st := c20Step{A: Pick(r, []string{"up", "down", "toggle", "up"}), P: Pick(r, []int{0, 3, 20, 40, 60, 120})}
			if r.Chance(1, 3) {
				st.B = []string{Pick(r, []string{"up", "down", "toggle"})}
			} else {
				st.C = r.Chance(1, 2)
			}
			cs.Steps = append(cs.Steps, st)
		}
		cs.Steps = append(cs.Steps, c20Step{A: Pick(r, []string{"up", "toggle"}), P: Pick(r, []int{0, 30, 300}), C: true})
	case 2: // nothing happens at all: the first command's output ends, it runs on, the session ends
		if r.Chance(1, 2) {
			cs.Steps = append(cs.Steps, c20Step{A: "refresh", P: Pick(r, []int{200, 400}), C: true})
		}
	case 3: // the window goes away while such a command runs and comes back after a move
		cs.Steps = append(cs.Steps, c20Step{A: "up", P: Pick(r, []int{100, 300}), C: true},
			c20Step{A: Pick(r, []string{"cpw:hidden", "toggle-preview", "hide-preview"}), P: Pick(r, []int{50, 300})},
			c20Step{A: Pick(r, []string{"up", "toggle", "down"}), P: Pick(r, []int{20, 100})},
			c20Step{A: Pick(r, []string{"cpw:", "cpw:left", "toggle-preview", "show-preview", "cpw:right,60%"}), P: Pick(r, []int{50, 300}), C: true},
			c20Step{A: act(), P: Pick(r, []int{100, 300}), C: true})
	case 4: // the command itself is replaced (change-preview) while the old one runs on with its output closed
		cs.Steps = append(cs.Steps, c20Step{A: "up", P: Pick(r, []int{100, 300}), C: true},
			c20Step{A: fmt.Sprintf("change:%d", r.Intn(4)), P: Pick(r, []int{60, 300}), C: true},
			c20Step{A: act(), P: Pick(r, []int{100, 300}), C: true})
	}
	return cs
}

// c20EofExitCase: the session ends while a command that has closed its output is alive: right after a superseding
// move (inside the window between two commands), inside the grace period, or with nothing pending.
func c20EofExitCase(r *RNG, i int) c20Case {
	e := c20EOF{Lines: Pick(r, []int{1, 1, 0}), Pre: Pick(r, []float64{0, 0, 0.05}), Hang: true}
	cs := c20Case{Stream: "exit", Kind: e.kind(), Tmpl: Pick(r, []int{0, 2}), Exit: Pick(r, []string{"accept", "abort", "sigterm"}), ExitUs: -1}
	switch i % 3 {
	case 0: // plain: one move, quiescence, end
		cs.Steps = []c20Step{{A: "up", P: Pick(r, []int{100, 300})}}
	case 1: // the end comes 0.2-1.2 ms after two moves that supersede the command
		cs.Steps = []c20Step{{A: "up", P: 350}, {A: "up", B: []string{"up"}, P: 250}}
		cs.GapUs = 200
		cs.ExitUs = r.Range(200, 1200)
	case 2: // the end comes 50-400 ms after
		cs.Steps = []c20Step{{A: "up", P: 300}, {A: "up", B: []string{"up"}, P: 150}}
		cs.ExitUs = r.Range(50, 400) * 1000
	}
	return cs
}

// c20SelInPlace: a scripted history around non-moving selection changes with a {+n} template.
func c20SelInPlace(r *RNG, i int) c20Case {
	cs := c20Case{Stream: "selinplace", Kind: Pick(r, []string{"instant", "short", "foreverinc", "slowverbose", "foreversilent", "instant", "eof_1_0_hang"}),
		Tmpl: Pick(r, []int{0, 1, 1}), Exit: Pick(r, []string{"accept", "abort", "sigterm"}), ExitUs: -1}
	p := func() int { return Pick(r, []int{3, 20, 40, 80}) }
	k := 2 + i%2 // items selected
	cs.Steps = append(cs.Steps, c20Step{A: "toggle", P: p(), C: true})
	for j := 1; j < k; j++ {
		cs.Steps = append(cs.Steps, c20Step{A: "up", P: p()}, c20Step{A: "toggle", P: p(), C: true})
	}
	// come back onto a selected item (the cursor is on the last selected one; go down 0..k-1 lines)
	back := r.Intn(k)
	for j := 0; j < back; j++ {
		cs.Steps = append(cs.Steps, c20Step{A: "down", P: p()})
	}
	cs.Steps = append(cs.Steps, c20Step{A: "refresh", P: 60, C: true})                         // settle: the preview is for this state
	cs.Steps = append(cs.Steps, c20Step{A: "toggle", P: Pick(r, []int{40, 80, 150}), C: true}) // OFF, in place
	switch i % 3 {
	case 0: // end here: the final quiescence check sees the non-moving toggle as the last change
	case 1: // and on again, in place
		cs.Steps = append(cs.Steps, c20Step{A: "toggle", P: p(), C: true})
	case 2: // a second one off, after moving onto it
		if back > 0 {
			cs.Steps = append(cs.Steps, c20Step{A: "up", P: p(), C: true}, c20Step{A: "toggle", P: p(), C: true})
		} else {
			cs.Steps = append(cs.Steps, c20Step{A: "up", P: p(), C: true}, c20Step{A: "toggle", P: 80})
		}
	}
	return cs
}

func runC20(c *Ctx) {
	c.Rep.Rule = "pty sessions with a logging preview command (instant / 50 ms / 6 s / never ending, silent or printing; templates with and without {q} and {+n}); random histories of up/down/toggle/typing/backspace/refresh-preview/change-preview/toggle-preview with pauses 0-80 ms and back-to-back groups; dedicated streams: two moves 0.3-1 ms apart, session end with a live / just superseded preview, selection toggled off/on without moving the cursor under a {+n} template, the window hidden (change-preview-window(hidden) / toggle-preview / hide-preview / hidden from the start) and brought back (change-preview-window with a layout / toggle-preview / show-preview) with moves, selections and typing in between, a scroll offset (+{2}-/2, +{2}-5, ~3,+{2}+3-/2, +N ...) with numbered output arriving in chunks separated by pauses of 0.35-0.6 s (window content read off an interpreted screen), never-ending output shorter than the requested offset (known finding), commands whose output ends before they do (kinds eof_<lines>_<pre>_<post>: print, close stdout/stderr, run on for ever or for 0.2-6 s) superseded long after / around / before the end of their output, with the window hidden and shown, with change-preview, and with the session ending while they live (no action at all, after quiescence, 0.2-1.2 ms or 50-400 ms after a superseding move), states with no line under the cursor (the query stops matching: put:z) under window options with and without follow / wrap at every position and outputs shorter / as tall as / taller than the window, still growing or ended, with the way back (backspace) and the window hidden and shown meanwhile (stream nomatch: the window must be blank and nothing alive), streaming input with --tail N (3-8) with and without --track where lines fed at run time (steps feed:<m>) trim old lines off the list and off the selection (stream tail), one batched action list; non-trivial = at least 3 commands started and 4 model labels (dedicated streams always); distinct by JSON of the case"
	if c.Replay != "" {
		var cs c20Case
		b, err := os.ReadFile(c.Replay)
		if err == nil {
			var w struct{ Input c20Case }
			if json.Unmarshal(b, &w) == nil && w.Input.Stream != "" {
				cs = w.Input
			} else {
				json.Unmarshal(b, &cs)
			}
		}
		c20Check(c, cs)
		return
	}
	var cases []c20Case
	for _, f := range corpusFiles(c) {
		var cs c20Case
		b, _ := os.ReadFile(f)
		if json.Unmarshal(b, &cs) == nil && cs.Stream != "" {
			cases = append(cases, cs)
			c.Rep.Count("corpus")
		}
	}
	r := c.Rng
	// back-to-back stream (fixed: b3cab5f): two moves 0.3-1 ms apart, six rounds per session, each must catch up
	for i, n := 0, c.N(8, 60); i < n; i++ {
		cs := c20Case{Stream: "b2b", Kind: Pick(r, []string{"foreverinc", "foreverinc", "slowverbose", "foreversilent"}), Tmpl: 0,
			Steps: []c20Step{{A: "up", P: 350, C: true}}, GapUs: r.Range(300, 1000), Exit: "abort", ExitUs: -1}
		for k := 0; k < 6; k++ {
			a := []string{"up", "down"}[k%2]
			cs.Steps = append(cs.Steps, c20Step{A: a, B: []string{a}, P: 250, C: true})
		}
		cases = append(cases, cs)
	}
	// session end with a live preview (fixed: 268c349): no survivor; and inside / after the grace period
	for i, n := 0, c.N(16, 120); i < n; i++ {
		cs := c20Case{Stream: "exit", Kind: Pick(r, []string{"foreversilent", "foreverinc", "slowverbose", "slowsilent"}), Tmpl: Pick(r, []int{0, 2}),
			Exit: Pick(r, []string{"accept", "abort", "sigterm"}), ExitUs: -1}
		switch []int{0, 1, 2, 3, 2, 2, 0, 2}[i%8] {
		case 0: // plain
			cs.Steps = []c20Step{{A: "up", P: 100}}
		case 1: // inside the cancellation grace period of a silent preview
			cs.Kind = "foreversilent"
			cs.Steps = []c20Step{{A: "up", P: 200}, {A: "up", B: []string{}, P: 50}}
			cs.Steps[1].B = []string{"up"}
			cs.ExitUs = r.Range(50, 400) * 1000
		case 2: // right after a superseding move (window between two commands; fixed: 5b17ce0)
			cs.Kind = "foreverinc"
			cs.Steps = []c20Step{{A: "up", P: 350}, {A: "up", B: []string{"up"}, P: 250}}
			cs.GapUs = 200
			cs.ExitUs = r.Range(200, 1200)
		case 3:
			cs.Steps = []c20Step{{A: "toggle", P: 100}, {A: "up", P: 30}}
		}
		cases = append(cases, cs)
	}
	// selection changes that do not move the cursor: select 2-3 items, come back onto a selected one, toggle it off
	// (or another one on) in place; every step is a checkpoint ({+n} must follow the selection)
	for i, n := 0, c.N(8, 48); i < n; i++ {
		cases = append(cases, c20SelInPlace(r, i))
	}
	// the window hidden and brought back at run time
	for i, n := 0, c.N(10, 80); i < n; i++ {
		cases = append(cases, c20WinCase(r, i))
	}
	// scroll offset of the request and output that arrives in chunks
	for i, n := 0, c.N(10, 80); i < n; i++ {
		cases = append(cases, c20ScrollCase(r, i))
	}
	// never-ending output shorter than the requested offset (known: c20-offset-gate-starves-short-output)
	for i, n := 0, c.N(2, 12); i < n; i++ {
		cases = append(cases, c20StarvedCase(r, i))
	}
	// commands whose output ends before they do (they close stdout/stderr and run on)
	for i, n := 0, c.N(10, 80); i < n; i++ {
		cases = append(cases, c20EofCase(r, i))
	}
	for i, n := 0, c.N(6, 36); i < n; i++ {
		cases = append(cases, c20EofExitCase(r, i))
	}
	// states with no line under the cursor (the query matches nothing): window options with and without follow / wrap,
	// outputs shorter and taller than the window
	for i, n := 0, c.N(12, 90); i < n; i++ {
		cases = append(cases, c20NoMatchCase(r, i))
	}
	// streaming input with --tail: the list and the selection change under the user
	for i, n := 0, c.N(10, 80); i < n; i++ {
		cases = append(cases, c20TailCase(r, i))
	}
	// one batched action list (known: c20-batched-refresh)
	cases = append(cases, c20Case{Stream: "batch", Kind: "instant", Tmpl: 0, Batch: "up+refresh-preview+down", Exit: "abort", ExitUs: -1,
		Steps: []c20Step{{A: "up", P: 50}}})
	for i, n := 0, c.N(26, 400); i < n; i++ {
		cases = append(cases, c20Gen(r, c.Thorough()))
	}
	par := 10
	var wg sync.WaitGroup
	ch := make(chan c20Case)
	for w := 0; w < par; w++ {
		wg.Add(1)
		go func() {
			defer wg.Done()
			for cs := range ch {
				c20Check(c, cs)
			}
		}()
	}
	for _, cs := range cases {
		ch <- cs
	}
	close(ch)
	wg.Wait()
	// regression witness [render; take; exit; quit_published; spawn; process_end]: a run of the machine of 268c349 (ends with a live
	// command), NOT a run of the machine of the tree (process_end is not enabled before the previewer has stopped)
	sched := L(L(I(6)), L(I(8)), L(I(17)), L(I(18)), L(I(9)), L(I(19)))
	t0 := L(I(1), B(true), B(true), B(true))
	u0 := L(I(0), L(), L())
	w1 := c.Model.Call(2003, L(L(I(1), I(1)), t0, u0, sched))
	w2 := c.Model.Call(2003, L(c20Policy, t0, u0, sched))
	if !(w1.IsList && len(w1.L) == 2 && w1.L[0].I == 1) || !(w2.IsList && len(w2.L) == 2 && w2.L[0].I == 0) {
		c.Rep.Disagreement(Disagreement{Kind: "corr", Name: "corr:C20.exit_window_witness", Input: "render;take;exit;spawn;process_end", Impl: w2.String(), Expect: w1.String()})
	}
	// regression witness [render; take; spawn; output; close_output; display; move 1; render]: on the machine that tells
	// goroutine 3 to stop at the end of the output (third policy component 1) the state is stable with the request for item 1
	// left in the mailbox; on the machine of the tree it is not stable (the kill is enabled)
	sched = L(L(I(6)), L(I(8)), L(I(9)), L(I(15), Bytes("x")), L(I(22)), L(I(7)), L(I(0), I(1)), L(I(6)))
	flags := func(v Val) (stable, quiescent, boxEmpty bool, ok bool) {
		if !(v.IsList && len(v.L) == 2 && v.L[0].I == 1 && v.L[1].IsList && len(v.L[1].L) >= 2 && len(v.L[1].L[1].L) >= 6) {
			return
		}
		f := v.L[1].L[1].L
		return f[2].I == 1, f[1].I == 1, f[4].I == 1, true
	}
	e1 := c.Model.Call(2003, L(L(I(1), I(2), I(1)), t0, u0, sched))
	e2 := c.Model.Call(2003, L(c20Policy, t0, u0, sched))
	s1, q1, b1, ok1 := flags(e1)
	s2, _, _, ok2 := flags(e2)
	if !(ok1 && ok2 && s1 && !q1 && !b1 && !s2) {
		c.Rep.Disagreement(Disagreement{Kind: "corr", Name: "corr:C20.finish_at_eof_witness", Input: "render;take;spawn;output;close_output;display;move;render", Impl: e2.String(), Expect: e1.String()})
	}
	// regression witness (window machine, op 2009): a window of 2 rows that follows the output, a command that printed 3
	// lines, then the blank result of a state without a line: under a new version (the tree) no row holds text; under the
	// version that is on the screen (version advanced only when a command is started) the second row keeps its line
	wt := c.Model.Call(2009, L(I(2), B(true), L(L(I(1), I(3), I(0)), L(I(2), I(0), I(0)))))
	ws := c.Model.Call(2009, L(I(2), B(true), L(L(I(1), I(3), I(0)), L(I(1), I(0), I(0)))))
	if !(wt.IsList && len(wt.L) == 3 && wt.L[0].I == 0) || !(ws.IsList && len(ws.L) == 3 && ws.L[0].I == 1) {
		c.Rep.Disagreement(Disagreement{Kind: "corr", Name: "corr:C20.blank_result_witness", Input: "window 2 rows, follow; results (1, 3 lines), (2 | 1, no lines)", Impl: wt.String(), Expect: ws.String()})
	}
}

func init() { runners["C20"] = runC20 }
