package main

// C14, stream (G): commands that cannot be STARTED at all.
//
// A command of fzf can fail in two very different ways: the shell runs and reports an error (`sh: foo: not found`, a
// non-zero exit status: the ordinary path, which the other streams exercise all the time), or the shell process
// itself cannot be created: $SHELL / --with-shell names something that does not exist, is not executable or is a
// directory, or the expanded command line is over the kernel's per-argument limit (execve: E2BIG; `reload(echo {+})`
// after select-all on a big list, {} on a very long line, {q} with a very long query -- the query also travels in
// FZF_QUERY).  Then exec.Start() returns an error and fzf takes error paths nothing else reaches.
//
//  (G1) "ready": the reader goroutine through the verif hook (Reader.restart / Reader.ReadSource exactly as core.go
//       calls them, with an unbuffered readyChan): number of values received, the goroutine ends, EvtReadFin is
//       posted (with the command when it failed), reader.terminate() returns.  spec: observation_okb (op 1410,
//       proved to follow from the hand-shake contract); corr: the model's observation and failure flag (op 1409).
//       Whether the command starts / succeeds is decided by an oracle of the environment: the same shell and
//       command run through os/exec by the harness.
//  (G2) "nostart": real fzf under a pty.  Every kind of command (reload, reload-sync, start:reload, the default
//       command, --preview, preview(), execute, execute-silent, transform*, bg-transform*, --info-command, become)
//       x every way of not starting, plus controls (command starts / command fails).  Afterwards fzf must still be
//       there as a whole, which is asked of it through --listen (no shell involved):
//         load_settles            eventually (10 s, 3 attempts) the list is not "loading" any more
//         search_alive            a new query is answered with the right number of matches (the coordinator and
//                                 the matcher run; the expected number is computed from the list fzf reports)
//         reload_after_failure    where the shell works: a later reload(seq K) delivers K lines
//         exits + clean           every exit path ends the process; modes, termios, TMPDIR, process table
//       corr: the coordinator model (op 1411) on the history of the session says "not blocked, stops".
import (
	"encoding/json"
	"errors"
	"fmt"
	"os/exec"
	"strconv"
	"strings"
	"sync/atomic"
	"time"

	fzf "github.com/junegunn/fzf/src"
	"github.com/junegunn/fzf/src/util"
)

// ---------------------------------------------------------------- (G1) the reader hand-shake through the hook

type c14Ready struct {
	Src   string `json:"src"`             // restart | initcmd | chan
	Shell string `json:"shell"`           // --with-shell value
	Cmd   string `json:"cmd"`             // the command ...
	Pad   int    `json:"pad,omitempty"`   // ... followed by " #" and Pad filler bytes (so that its length is what matters)
	Wait  bool   `json:"wait,omitempty"`  // NewReader(..., wait)
	Ready bool   `json:"ready,omitempty"` // a coordinator waits on readyChan (always true for restart)
}

func (q c14Ready) command() string {
	if q.Pad <= 0 {
		return q.Cmd
	}
	return q.Cmd + " #" + strings.Repeat("x", q.Pad)
}

type c14ReadyObs struct {
	Sends    int  `json:"values_received_on_readyChan"`
	Ended    bool `json:"goroutine_ended"`
	Fin      bool `json:"EvtReadFin_posted"`
	Failed   bool `json:"EvtReadFin_carries_command"`
	MutexOK  bool `json:"terminate_returns"`
	Pushed   int  `json:"lines_pushed"`
}

var c14ReadyFails int32

func c14ReadyOnce(q c14Ready, deadline time.Duration) c14ReadyObs {
	eb := util.NewEventBox()
	var pushed int32
	rd := fzf.NewReader(func(b []byte) bool { atomic.AddInt32(&pushed, 1); return true }, eb, util.NewExecutor(q.Shell), false, q.Wait)
	var ch chan bool
	if q.Ready || q.Src == "restart" {
		ch = make(chan bool) // unbuffered, as in core.go
	}
	done := make(chan struct{})
	cmd := q.command()
	go func() {
		switch q.Src {
		case "restart":
			rd.VerifRestart(cmd, nil, nil, ch)
		case "initcmd":
			rd.VerifReadSource(nil, cmd, nil, ch)
		case "chan":
			in := make(chan string, 4)
			in <- "a"
			in <- "b"
			close(in)
			rd.VerifReadSource(in, "", nil, ch)
		}
		close(done)
	}()
	o := c14ReadyObs{}
	timeout := time.After(deadline)
loop:
	for {
		select {
		case <-ch: // (a nil channel never delivers)
			o.Sends++
		case <-done:
			o.Ended = true
			break loop
		case <-timeout:
			break loop
		}
	}
	if o.Ended {
		o.Fin = eb.Peek(fzf.EvtReadFin)
		if o.Fin {
			eb.Wait(func(ev *util.Events) {
				if v, ok := (*ev)[fzf.EvtReadFin]; ok {
					if p, ok := v.(*string); ok && p != nil {
						o.Failed = true
					}
				}
			})
		}
	}
	term := make(chan struct{})
	go func() { rd.VerifTerminate(); close(term) }()
	select {
	case <-term:
		o.MutexOK = true
	case <-time.After(deadline):
	}
	o.Pushed = int(atomic.LoadInt32(&pushed))
	return o
}

// the environment's decision: does this shell start with this command line, and does the command succeed
func c14StartOracle(q c14Ready) (startOK, waitOK bool) {
	f := strings.Fields(q.Shell)
	if len(f) == 0 {
		return false, false
	}
	cmd := exec.Command(f[0], append(append([]string{}, f[1:]...), q.command())...)
	if err := cmd.Start(); err != nil {
		return false, false
	}
	return true, cmd.Wait() == nil
}

func c14ReadyRun(c *Ctx, cs c14Case) {
	rep := c.Rep
	if cs.Ready == nil {
		return
	}
	q := *cs.Ready
	ready := q.Ready || q.Src == "restart"
	startOK, waitOK := true, true
	if q.Src != "chan" {
		startOK, waitOK = c14StartOracle(q)
	}
	kind := map[string]int{"restart": 0, "chan": 1, "initcmd": 2}[q.Src]
	mv := c.Model.Call(1409, L(I(kind), B(ready), B(startOK), B(waitOK), B(true)))
	var o c14ReadyObs
	var obs Val
	ok := false
	tries := 3
	if atomic.LoadInt32(&c14ReadyFails) >= 3 {
		tries = 1 // the same failure has been reported three times with all retries: do not spend a minute on each further case
	}
	for try := 0; try < tries && !ok; try++ { // liveness: a fresh reader, twice more, before anything is reported
		o = c14ReadyOnce(q, 10*time.Second)
		obs = L(I(o.Sends), B(o.Ended), B(o.Fin), B(o.MutexOK))
		ok = c.Model.Call(1410, L(B(ready), obs)).I == 1
	}
	rep.ImplTraces++
	rep.SpecChecks++
	short := cs
	short.Ready = &c14Ready{Src: q.Src, Shell: q.Shell, Cmd: q.Cmd, Pad: q.Pad, Wait: q.Wait, Ready: q.Ready}
	key, _ := json.Marshal(short)
	rep.Eval(string(key), !startOK)
	rep.Count(fmt.Sprintf("ready:%s:start=%v", q.Src, startOK))
	if !ok {
		atomic.AddInt32(&c14ReadyFails, 1)
		rep.Disagreement(Disagreement{Kind: "spec", Name: "ready.handshake", Input: cs, Impl: o,
			Expect: fmt.Sprintf("exactly %d value(s) on readyChan, the reader goroutine ends, EvtReadFin is posted, reader.terminate() returns (each within 10 s; the shell starts: %v)", map[bool]int{true: 1, false: 0}[ready], startOK)})
		return
	}
	if len(mv.L) == 4 {
		wantFailed := mv.L[2].I == 1
		if !mv.L[1].Equal(obs) || wantFailed != o.Failed || mv.L[3].I != 1 {
			rep.Disagreement(Disagreement{Kind: "corr", Name: "corr:C14.reader_handshake", Input: cs, Impl: o, Expect: mv.String()})
		}
	}
	rep.Sample(short)
}

var c14BadShells = []struct{ name, shell string }{
	{"noent", "/nonexistent/sh -c"},
	{"notinpath", "c14-no-such-shell -c"},
	{"noexec", "/etc/passwd -c"},
	{"dir", "/ -c"},
}

func c14GenReady(r *RNG, i int) c14Case {
	q := c14Ready{Src: []string{"restart", "initcmd", "restart", "initcmd", "chan"}[i%5], Shell: "/bin/sh -c", Wait: r.Bool(), Ready: true}
	if q.Src != "restart" && r.Chance(1, 4) {
		q.Ready = false // --filter: readyChan == nil
	}
	q.Cmd = Pick(r, []string{"echo a; echo b", "true", "exit 3", "c14-no-such-command", "printf 'x\\ny\\n'; exit 1", "seq 1000"})
	switch (i / 5) % 4 {
	case 0: // the shell cannot be started
		q.Shell = Pick(r, c14BadShells).shell
	case 1: // the command line is too long for execve (one argument: 32 pages); boundary-biased
		lim := 32 * 4096
		total := Pick(r, []int{lim - 2, lim - 1, lim, lim + 1, lim + 4096, 2 * lim, 3 * lim})
		q.Pad = total - len(q.Cmd) - 2
	case 2, 3: // controls: the command starts
	}
	return c14Case{Kind: "ready", Ready: &q}
}

// ---------------------------------------------------------------- (G2) sessions

func c14InputOf(cs c14Case) []byte {
	if len(cs.Input) > 0 || cs.Items <= 0 {
		return cs.Input
	}
	var b strings.Builder
	for i := 1; i <= cs.Items; i++ {
		s := "item" + strconv.Itoa(i)
		b.WriteString(s)
		if cs.ItemW > len(s) {
			// filler without white space or quotes; the long line of e2big-line is the FIRST one
			if cs.Fail != "e2big-line" || i == 1 {
				b.WriteString("-")
				b.WriteString(strings.Repeat("w", cs.ItemW-len(s)-1))
			}
		}
		b.WriteByte('\n')
	}
	return []byte(b.String())
}

// a light GET: the counters and at most `limit` items
func c14GetN(s *Session, limit int) (*FzfState, error) {
	st, body, err := s.roundTrip("GET /?limit=" + strconv.Itoa(limit) + " HTTP/1.1\r\nHost: localhost\r\n\r\n")
	if err != nil {
		return nil, err
	}
	if st != 200 {
		return nil, fmt.Errorf("GET: HTTP %d %s", st, strings.TrimSpace(body))
	}
	var out FzfState
	if err := json.Unmarshal([]byte(body), &out); err != nil {
		return nil, fmt.Errorf("GET: %v", err)
	}
	return &out, nil
}

// eventually (timeout per attempt, `tries` attempts; `again` re-issues the request between attempts)
func c14Eventually(s *Session, limit int, tries int, timeout time.Duration, again func(), pred func(*FzfState) bool) (*FzfState, bool, bool) {
	var last *FzfState
	for try := 0; try < tries; try++ {
		if try > 0 && again != nil {
			again()
		}
		deadline := time.Now().Add(timeout)
		for i := 0; time.Now().Before(deadline); i++ {
			if s.Exited() {
				return last, false, true
			}
			st, err := c14GetN(s, limit)
			if err == nil {
				last = st
				if pred(st) {
					return st, true, false
				}
			} else if errors.Is(err, ErrGone) {
				return last, false, true
			}
			if i < 100 {
				time.Sleep(2 * time.Millisecond)
			} else {
				time.Sleep(20 * time.Millisecond)
			}
		}
	}
	return last, false, s.Exited()
}

func c14StateStr(st *FzfState) string {
	if st == nil {
		return "no answer to GET /"
	}
	q := st.Query
	if len(q) > 40 {
		q = q[:40] + fmt.Sprintf("...(%d bytes)", len(st.Query))
	}
	return fmt.Sprintf("reading=%v total=%d matches=%d query=%q", st.Reading, st.TotalCount, st.MatchCount, q)
}

var c14LongQuery = strings.Repeat("q", 140000)

// the placeholders of generated cases are kept short in the replay file: "@LONGQ@" stands for a 140000-byte query
func c14Expand(s string) string { return strings.ReplaceAll(s, "@LONGQ@", c14LongQuery) }

func c14ShellWorks(cs c14Case) bool {
	return strings.HasPrefix(cs.Fail, "e2big") || cs.Fail == "ok" || cs.Fail == "cmdfails"
}

// c14NoStartKnown: narrow classifiers of the KNOWN_FINDINGS entries this stream runs into
func c14NoStartKnown(cs c14Case, what string) string {
	// c14-become-exec-fails: become(...) whose command line is over the kernel's limit: syscall.Exec fails after
	// the terminal has been closed and fzf goes on without a user interface
	// (repaired in /repo 03c3b2b: fzf now reports the error and exits 126; nothing is classified any more)
	return ""
}

func c14NoStart(c *Ctx, cs c14Case, id string) {
	rep := c.Rep
	short := c14Short(cs)
	key, _ := json.Marshal(short)
	bad := false
	fail := func(what string, impl, expect interface{}) {
		bad = true
		rep.Disagreement(Disagreement{Kind: "spec", Name: "nostart." + what, Input: cs, Impl: impl, Expect: expect, Known: c14NoStartKnown(cs, what)})
	}
	var r *c14Run
	var err error
	for try := 0; try < 3; try++ { // liveness of start-up: retried twice
		r, err = c14Start(c, cs, id)
		if err == nil || !strings.Contains(err.Error(), "did not start within") {
			break
		}
	}
	rep.ImplTraces++
	rep.Eval(string(key), cs.Fail != "ok" && cs.Fail != "cmdfails")
	rep.Count("nostart:via=" + cs.Via)
	rep.Count("nostart:fail=" + cs.Fail)
	if err != nil {
		msg := err.Error()
		if len(msg) > 600 {
			msg = msg[:600]
		}
		switch {
		case strings.Contains(msg, "panic:") || strings.Contains(msg, "goroutine ") || strings.Contains(msg, "fatal error"):
			fail("no_crash", msg, "no panic at start-up")
		case strings.Contains(msg, "did not start within"):
			fail("starts", msg, "a first frame on the terminal and an answer to GET / within 10 s (3 attempts), also when the command that delivers the list cannot be started")
		default:
			rep.Count("nostart:start-other")
			rep.Extra["nostart_start_other"] = msg
		}
		return
	}
	defer r.close()
	s := r.s
	rep.SpecChecks++
	hist := []Val{}
	// the list from standard input has arrived
	if !cs.StdinTTY && cs.Items > 0 && cs.Via != "start-reload" {
		if st, ok, gone := c14Eventually(s, 1, 3, 10*time.Second, nil, func(f *FzfState) bool { return !f.Reading && f.TotalCount >= cs.Items }); !ok && !gone {
			fail("initial_load", c14StateStr(st), fmt.Sprintf("%d lines from standard input", cs.Items))
			return
		}
	}
	hist = append(hist, L(I(2))) // CReadFin
	startOK := cs.Fail == "ok" || cs.Fail == "cmdfails"
	probeOK := true
	nsync := 0
	// settle: POST returns when the action list is queued, and Sync needs a shell.  An action list that sets the query
	// to a fresh marker is posted instead: when GET shows the marker, every list posted before it has been executed by
	// the terminal loop (they are taken from one channel in order; a reload action sets `reading` in the same critical
	// section).  Then, eventually, the list must stop being reported as loading.
	settle := func() {
		if s.Exited() || !probeOK {
			return
		}
		nsync++
		mark := "c14sync" + strconv.Itoa(nsync)
		s.Post("change-query(" + mark + ")")
		st, ok, gone := c14Eventually(s, 1, 3, 10*time.Second, func() { s.Post("change-query(" + mark + ")") }, func(f *FzfState) bool { return f.Query == mark })
		if gone {
			return
		}
		if !ok {
			probeOK = false
			fail("actions_processed", c14StateStr(st), "eventually (3 x 10 s) the action list change-query("+mark+") posted after the command that could not be started is executed")
			return
		}
		st, ok, gone = c14Eventually(s, 1, 3, 10*time.Second, nil, func(f *FzfState) bool { return !f.Reading })
		if !ok && !gone {
			probeOK = false
			fail("load_settles", c14StateStr(st), "eventually (3 x 10 s) the list is no longer reported as loading after a command that could not be started")
		}
	}
	for _, st := range cs.Steps {
		if s.Exited() || !probeOK {
			break
		}
		if st.T == "settle" {
			settle()
			continue
		}
		if st.T == "post" {
			st.S = c14Expand(st.S)
			if strings.Contains(st.S, "reload") {
				hist = append(hist, L(I(0), B(true), B(startOK), B(cs.Fail == "ok")), L(I(2)))
			}
		}
		r.step(st)
	}
	if cr := s.Crash(); cr != "" {
		fail("no_crash", c14CrashText(s), "no panic / fatal error on the terminal")
		return
	}
	exitHow := cs.Exit
	if cs.Via == "become" {
		// the failing command is the exit path itself: either the process ends (with an error), or fzf goes on and
		// must then be as usable as before: it must still own the terminal (raw mode), and the probes and the
		// exit below must work
		// eventually: 10 s for the process to end; when it is still there and the terminal is cooked, another 10 s
		// before that is reported (only 10 s in all for the shape of the recorded finding c14-become-exec-fails)
		s.waitExit(10 * time.Second)
		cooked := func() bool {
			if s.Exited() || r.slave == nil {
				return false
			}
			c14FreshOnce.Do(func() { c14Fresh = c14FreshTermios() })
			ta, err := c14TermiosFd(int(r.slave.Fd()))
			return err == nil && ta == c14Fresh
		}
		if cooked() && c14NoStartKnown(cs, "become_failure_usable") == "" {
			s.waitExit(10 * time.Second)
		}
		if cooked() && !s.Exited() {
			fail("become_failure_usable", "10 s and more after the become action fzf is still running but has handed the terminal back (termios is the cooked default): typed keys are line-buffered and echoed by the tty and do not reach fzf; enter / esc no longer end it",
				"after a become whose exec fails, fzf either ends with an error or keeps its user interface")
			bad = false // (a recorded finding when classified; the rest of the session is still checked)
			if exitHow == "enter" || exitHow == "esc" || exitHow == "ctrl-c" {
				exitHow = "abort" // keys cannot work in this state: that is what has just been reported
			}
		}
	}
	settle()
	for _, p := range cs.Probe {
		if s.Exited() || !probeOK {
			break
		}
		switch p {
		case "search":
			// the list as fzf reports it with an empty query ...
			s.Post("clear-query")
			st, ok, gone := c14Eventually(s, 1, 3, 10*time.Second, func() { s.Post("clear-query") }, func(f *FzfState) bool {
				return f.Query == "" && !f.Reading && f.MatchCount == f.TotalCount
			})
			if gone {
				break
			}
			if !ok {
				probeOK = false
				fail("search_alive", c14StateStr(st), "after clear-query: eventually query \"\" and every line matches (3 x 10 s)")
				break
			}
			full, err := c14GetN(s, st.TotalCount+10)
			if err != nil || full.Query != "" || len(full.Matches) != full.TotalCount {
				break // (the list moved on or fzf has exited: nothing to compare with)
			}
			// ... and a token taken from its middle item: the number of lines that contain it is what fzf must answer
			tok := "zq"
			if n := len(full.Matches); n > 0 {
				t := strings.ToLower(full.Matches[n/2].Text)
				if len(t) > 6 {
					t = t[:6]
				}
				if t != "" && strings.IndexFunc(t, func(x rune) bool { return !(x >= 'a' && x <= 'z' || x >= '0' && x <= '9') }) < 0 {
					tok = t
				}
			}
			want := 0
			for _, m := range full.Matches {
				if strings.Contains(strings.ToLower(m.Text), tok) {
					want++
				}
			}
			act := "change-query('" + tok + ")"
			s.Post(act)
			st, ok, gone = c14Eventually(s, 1, 3, 10*time.Second, func() { s.Post(act) }, func(f *FzfState) bool {
				return f.Query == "'"+tok && !f.Reading && f.MatchCount == want && f.TotalCount == full.TotalCount
			})
			if !ok && !gone {
				probeOK = false
				fail("search_alive", c14StateStr(st), fmt.Sprintf("after %s on a list of %d lines of which %d contain %q: eventually (3 x 10 s) matches=%d total=%d", act, full.TotalCount, want, tok, want, full.TotalCount))
			}
			hist = append(hist, L(I(0), B(false), B(false), B(false))) // CSearchNew without a command
		case "reload":
			k := 3 + len(cs.Steps) + cs.Items%5
			act := "clear-query+deselect-all+reload(seq " + strconv.Itoa(k) + ")"
			s.Post(act)
			st, ok, gone := c14Eventually(s, 1, 3, 10*time.Second, func() { s.Post(act) }, func(f *FzfState) bool {
				return !f.Reading && f.TotalCount == k && f.Query == ""
			})
			if !ok && !gone {
				probeOK = false
				fail("reload_after_failure", c14StateStr(st), fmt.Sprintf("after %s: eventually (3 x 10 s) total=%d and not loading", act, k))
			}
			hist = append(hist, L(I(0), B(true), B(true), B(true)), L(I(2)))
		}
	}
	if !s.Exited() && probeOK && !r.responsive() {
		probeOK = false
		fail("responsive", "GET / not answered within 3 x 10 s", "answers")
	}
	if !probeOK {
		return // fzf has stopped answering: reported above; what an exit request would do now adds nothing (r.close kills it)
	}
	// let the asynchronous removals (reader goroutine: r.fin, then removeFiles) happen before the exit is requested:
	// the exit-during-reload race is a separate, recorded finding
	if !s.Exited() {
		r.step(c14Step{T: "waittmp", X: 0})
	}
	if cs.Via == "info-command" {
		time.Sleep(150 * time.Millisecond) // (see the generator: SIGINT and a running info command)
	}
	if s.Exited() {
		_, code, _ := s.Wait(time.Second)
		r.exited, r.code = true, code
		r.goneTicks = c14NowTicks()
		rep.Count("nostart:exited-before-exit-request")
	} else {
		r.exit(exitHow)
	}
	hist = append(hist, L(I(3))) // CQuit
	clean := c14CheckClean(c, cs, r, false, 0, "nostart")
	rep.Count("nostart:exit=" + cs.Exit)
	// the coordinator model on the same history: never blocked, stops
	mv := c.Model.Call(1411, L(hist...))
	if len(mv.L) == 5 && !bad {
		modelStops := mv.L[0].I == 0 && mv.L[1].I == 1
		if modelStops != (r.exited && probeOK) {
			rep.Disagreement(Disagreement{Kind: "corr", Name: "corr:C14.coordinator_liveness", Input: cs, Impl: fmt.Sprintf("exited=%v probes=%v", r.exited, probeOK), Expect: mv.String() + " [blocked stopped mutex-held leaked reading]"})
		}
	}
	if clean && !bad {
		rep.Sample(short)
	}
}

var c14NoStartVias = []string{"reload", "reload-sync", "start-reload", "default-command", "preview", "preview-action", "execute", "execute-silent",
	"transform", "bg-transform", "info-command", "become"}

func c14GenNoStart(r *RNG, i int) c14Case {
	cs := c14Case{Kind: "nostart", NoSync: true, Cols: 80, Rows: 24, Items: r.Range(20, 60)}
	cs.Via = c14NoStartVias[i%len(c14NoStartVias)]
	// why the command does not start: shell failures and E2BIG alternate; every 5th case is a control
	class := (i / len(c14NoStartVias)) % 5
	atStart := cs.Via == "start-reload" || cs.Via == "default-command"
	switch {
	case class == 4:
		cs.Fail = Pick(r, []string{"ok", "cmdfails"})
	case class%2 == 0 || atStart: // (nothing long enough can be handed to a command that runs at start-up)
		cs.Fail = Pick(r, []string{"noent", "notinpath", "noexec", "dir", "shellenv"})
	default:
		cs.Fail = Pick(r, []string{"e2big-plus", "e2big-line", "e2big-query"})
	}
	cs.Args = append(cs.Args, Pick(r, [][]string{{}, {"--height", "50%"}, {"--reverse", "--border"}, {"--height", "~100%"}, {"--no-mouse"}})...)
	cs.Args = append(cs.Args, "--multi")
	cmd, pre := "", ""
	switch cs.Fail {
	case "noent", "notinpath", "noexec", "dir":
		for _, b := range c14BadShells {
			if b.name == cs.Fail {
				cs.Args = append(cs.Args, "--with-shell", b.shell)
			}
		}
	case "shellenv":
		cs.Env = append(cs.Env, "SHELL="+Pick(r, []string{"/nonexistent/sh", "/etc/passwd", "/", "c14-no-such-shell"}))
	case "e2big-plus": // {+} over a selection of 150 KB and more
		cs.Items, cs.ItemW = r.Range(500, 900), r.Range(300, 400)
		cmd, pre = "echo {+}", "select-all+"
	case "e2big-line": // {} on a line of 140 KB and more
		cs.ItemW = Pick(r, []int{132000, 140000, 200000})
		cmd, pre = "echo {}", "first+"
	case "e2big-query": // {q} (and FZF_QUERY) of 140 KB
		cmd, pre = "echo {q}", "change-query(@LONGQ@)+"
	case "ok":
		cmd = "echo up"
	case "cmdfails":
		cmd = Pick(r, []string{"exit 3", "c14-no-such-command", "echo up; exit 1"})
	}
	if cmd == "" {
		cmd = Pick(r, []string{"echo up", "echo {}", "cat {f}", "echo {q} {+}", "cat {+f} {f}", "echo {n}"})
	}
	if atStart { // no item to refer to
		cmd = Pick(r, []string{"echo up; echo down", "seq 7", "echo {q}"})
	}
	post := func(a string) { cs.Steps = append(cs.Steps, c14Step{T: "post", S: a}) }
	switch cs.Via {
	case "reload", "reload-sync":
		post(pre + cs.Via + "(" + cmd + ")")
	case "start-reload":
		cs.Args = append(cs.Args, "--bind", "start:reload("+cmd+")")
	case "default-command":
		cs.StdinTTY, cs.Items = true, 0
		cs.Env = append(cs.Env, "FZF_DEFAULT_COMMAND="+cmd)
	case "preview":
		cs.Args = append(cs.Args, "--preview", cmd)
		post(pre + "down+up+refresh-preview")
		cs.Steps = append(cs.Steps, c14Step{T: "sleep", X: 150})
		post("down")
	case "preview-action":
		post(pre + "preview(" + cmd + ")")
		cs.Steps = append(cs.Steps, c14Step{T: "sleep", X: 100})
	case "execute", "execute-silent":
		post(pre + cs.Via + "(" + cmd + ")")
	case "transform":
		kinds := []string{"transform", "transform-query", "transform-header", "transform-prompt", "transform-search"}
		if c14ShellWorks(cs) && !strings.HasPrefix(cs.Fail, "e2big") {
			kinds = kinds[:4] // (a control whose command runs would really set a search term: the probes assume the query is what filters)
		}
		post(pre + Pick(r, kinds) + "(" + cmd + ")")
	case "bg-transform":
		post(pre + Pick(r, []string{"bg-transform", "bg-transform-header", "bg-transform-prompt"}) + "(" + cmd + ")")
		cs.Steps = append(cs.Steps, c14Step{T: "sleep", X: 100})
	case "info-command":
		cs.Args = append(cs.Args, "--info-command", cmd)
		post(pre + "down+up")
		// (SIGINT is ignored by design while a command "executes", the info command included: keep the exit request clear of it)
		cs.Steps = append(cs.Steps, c14Step{T: "sleep", X: 150})
	case "become":
		post(pre + "become(" + cmd + ")")
	}
	if r.Chance(1, 2) && cs.Via != "become" && len(cs.Steps) > 0 {
		// the same thing twice: what the first failure left behind meets the second.  (Settled in between: a reload
		// request that overwrites an unconsumed one is the recorded finding c14-tempfile-double-reload.)
		once := append([]c14Step{}, cs.Steps...)
		cs.Steps = append(append(cs.Steps, c14Step{T: "settle"}), once...)
	}
	if cs.Via == "become" && !c14ShellWorks(cs) && strings.Contains(cmd, "f}") {
		// c14-become-noshell-tempfile: become with a shell that cannot be found ends fzf (status 127) without
		// removing the {f} files written for a program that never started
		cs.Known = "c14-become-noshell-tempfile"
	}
	cs.Probe = []string{"search"}
	if c14ShellWorks(cs) {
		cs.Probe = append(cs.Probe, "reload")
		if r.Bool() {
			cs.Probe = []string{"reload", "search"}
		}
	}
	cs.Exit = Pick(r, []string{"enter", "esc", "ctrl-c", "accept", "abort", "sigint", "sigterm"})
	return cs
}
