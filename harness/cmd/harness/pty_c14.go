package main

// pty_c14.go — helpers for C14 on top of pty.go (which is not modified):
//   * c14Termios / c14FreshTermios: tcgetattr of a session's terminal through the pty master (on Linux TCGETS on
//     the master side of a pty operates on the slave's termios) and of a pristine pty (the "before" value:
//     every new pty starts with the same kernel defaults);
//   * c14Survivors: processes that still belong to the session of the fzf process (it is a session leader:
//     Setsid) or carry the session's marker environment variable;
//   * c14TmpLeft: what is left in the session's private TMPDIR apart from the harness' own files;
//   * c14StartPlain: start fzf under a pty WITHOUT waiting for a first frame (start-up error paths).

import (
	"bytes"
	"fmt"
	"os"
	"os/exec"
	"path/filepath"
	"strconv"
	"strings"
	"syscall"
	"time"

	"golang.org/x/sys/unix"
)

func c14TermiosFd(fd int) (string, error) {
	t, err := unix.IoctlGetTermios(fd, unix.TCGETS)
	if err != nil {
		return "", err
	}
	return fmt.Sprintf("iflag=%#o oflag=%#o cflag=%#o lflag=%#o line=%d cc=%v", t.Iflag, t.Oflag, t.Cflag, t.Lflag, t.Line, t.Cc[:19]), nil
}

func c14Termios(s *Session) (string, error) { return c14TermiosFd(int(s.master.Fd())) }

func c14FreshTermios() string {
	m, sl, err := openPty(80, 24)
	if err != nil {
		return "error: " + err.Error()
	}
	defer m.Close()
	defer sl.Close()
	t, err := c14TermiosFd(int(sl.Fd()))
	if err != nil {
		return "error: " + err.Error()
	}
	return t
}

// c14OpenSlave opens (and keeps) the slave side of the session's pty, so that the terminal outlives fzf:
// termios can be read after exit and a sentinel written through it marks the end of fzf's output.
func c14OpenSlave(s *Session) (*os.File, error) {
	n, err := unix.IoctlGetInt(int(s.master.Fd()), unix.TIOCGPTN)
	if err != nil {
		return nil, err
	}
	fd, err := unix.Open("/dev/pts/"+strconv.Itoa(n), unix.O_RDWR|unix.O_NOCTTY|unix.O_CLOEXEC, 0)
	if err != nil {
		return nil, err
	}
	return os.NewFile(uintptr(fd), "pts"), nil
}

// c14FinalScreen: everything fzf wrote, complete (a sentinel written after the exit has come through the pty).
func c14FinalScreen(s *Session, slave *os.File, id string) ([]byte, bool) {
	mark := []byte("\x00C14END" + id + "\x00")
	if slave == nil {
		return s.Screen(), false
	}
	// A ctrl-s byte typed while the line discipline was cooked (a child owned the terminal, or fzf had already restored
	// it on its way out) has stopped the terminal's output (XOFF): a write through the slave would then block for good --
	// and with it the worker, and the whole run.  That state is the typist's doing, not a mode fzf changed: restart the
	// output first, and never wait for the write longer than the deadline.
	// TCOON only undoes TCOOFF; output stopped by a received STOP character is restarted by the START character
	// (ctrl-q), which the line discipline consumes as flow control when IXON is set (the cooked default) -- and when
	// IXON is not set the output cannot have been stopped that way.
	unix.IoctlSetInt(int(slave.Fd()), unix.TCXONC, unix.TCOON)
	if ta, err := unix.IoctlGetTermios(int(slave.Fd()), unix.TCGETS); err == nil && ta.Iflag&unix.IXON != 0 {
		c14SendKeys(s, slave, []byte{ta.Cc[unix.VSTART]})
	}
	wrote := make(chan error, 1)
	go func() { _, err := slave.Write(mark); wrote <- err }()
	select {
	case err := <-wrote:
		if err != nil {
			return s.Screen(), false
		}
	case <-time.After(10 * time.Second):
		return s.Screen(), false // (the write is released when the caller closes the slave)
	}
	deadline := time.Now().Add(10 * time.Second)
	for {
		scr := s.Screen()
		if i := bytes.Index(scr, mark); i >= 0 {
			return scr[:i], true
		}
		if time.Now().After(deadline) {
			return scr, false
		}
		time.Sleep(time.Millisecond)
	}
}

// c14SendKeys types bytes but never blocks for good: when nobody reads the terminal (fzf has exited while we still hold
// the slave open, or a child that does not read owns it) the tty input queue fills up and write(2) on the master
// blocks; after 2 s the input queue is flushed through the slave handle, which releases the writer.
// Returns false when the bytes could not be delivered.
func c14SendKeys(s *Session, slave *os.File, b []byte) bool {
	done := make(chan struct{})
	go func() { s.SendKeys(b); close(done) }()
	for try := 0; try < 5; try++ {
		select {
		case <-done:
			return try == 0
		case <-time.After(2 * time.Second):
			if slave != nil {
				unix.IoctlSetInt(int(slave.Fd()), unix.TCFLSH, unix.TCIFLUSH)
			}
		}
	}
	return false
}

func c14Pid(s *Session) int {
	if s.cmd == nil || s.cmd.Process == nil {
		return 0
	}
	return s.cmd.Process.Pid
}

// c14NowTicks: now, in clock ticks (1/100 s) since boot -- the unit of the start time in /proc/<pid>/stat.
func c14NowTicks() uint64 {
	b, err := os.ReadFile("/proc/uptime")
	if err != nil {
		return 0
	}
	f := strings.Fields(string(b))
	if len(f) == 0 {
		return 0
	}
	up, _ := strconv.ParseFloat(f[0], 64)
	return uint64(up * 100)
}

// c14Survivors lists "pid:comm" of live (non-zombie) processes that carry the marker environment variable, or whose
// session id is sid.  Process ids are recycled quickly on this machine: once the session of a finished fzf is empty
// its number can become the pid -- and session id -- of an unrelated new process (another worker's fzf, another
// harness).  A match by session id alone therefore only counts when the process was born before `bornBefore`
// (the moment the fzf process was seen to be gone; 0 = fzf is alive, no guard needed) and does not carry the
// marker of a different session of this harness.
func c14Survivors(sid int, mark string, bornBefore uint64) []string {
	var out []string
	ents, _ := os.ReadDir("/proc")
	self := os.Getpid()
	for _, e := range ents {
		pid, err := strconv.Atoi(e.Name())
		if err != nil || pid == self {
			continue
		}
		st, err := os.ReadFile("/proc/" + e.Name() + "/stat")
		if err != nil {
			continue
		}
		// pid (comm) state ppid pgrp session ... starttime(22)
		r := bytes.LastIndexByte(st, ')')
		l := bytes.IndexByte(st, '(')
		if r < 0 || l < 0 {
			continue
		}
		f := strings.Fields(string(st[r+1:]))
		if len(f) < 20 || f[0] == "Z" || f[0] == "X" {
			continue
		}
		psid, _ := strconv.Atoi(f[3])
		bySid := sid > 0 && psid == sid
		if !bySid && mark == "" {
			continue
		}
		env, eerr := os.ReadFile("/proc/" + e.Name() + "/environ")
		hit := false
		if mark != "" && eerr == nil && bytes.Contains(append(env, 0), append([]byte(mark), 0)) {
			hit = true
		} else if bySid {
			start, _ := strconv.ParseUint(f[19], 10, 64)
			other := eerr == nil && bytes.Contains(env, []byte("C14MARK="))
			hit = !other && (bornBefore == 0 || start <= bornBefore)
		}
		if hit {
			out = append(out, e.Name()+":"+string(st[l+1:r]))
		}
	}
	return out
}

// c14KillSurvivors SIGKILLs every live process carrying the marker / of the session (same guards as c14Survivors).
func c14KillSurvivors(sid int, mark string, bornBefore uint64) {
	for _, p := range c14Survivors(sid, mark, bornBefore) {
		if i := strings.IndexByte(p, ':'); i > 0 {
			if pid, err := strconv.Atoi(p[:i]); err == nil && pid > 1 {
				syscall.Kill(pid, syscall.SIGKILL)
			}
		}
	}
}

// c14TmpLeft lists the files fzf (or its children) left in the private TMPDIR; the harness' own files are
// "stdin", markers "m_<n>" and anything starting with "h_" (scenario scripts/logs).
func c14TmpLeft(dir string) []string {
	var out []string
	ents, _ := os.ReadDir(dir)
	for _, e := range ents {
		n := e.Name()
		if n == "stdin" || strings.HasPrefix(n, "m_") || strings.HasPrefix(n, "h_") {
			continue
		}
		out = append(out, n)
	}
	return out
}

type c14Plain struct {
	Dir    string
	master *os.File
	cmd    *exec.Cmd
	screen bytes.Buffer
	done   chan struct{}
	code   int
}

// c14StartPlain runs fzf with args under a fresh pty, drains the terminal, waits for exit (or kills after timeout).
// Returns terminal bytes, exit code (-1 signal, -2 timeout), termios after.
func c14StartPlain(c *Ctx, args []string, stdin string, cols, rows int, timeout time.Duration) (screen []byte, code int, termAfter string, dir string, pid int, err error) {
	base := c.Work
	if base == "" {
		base = os.TempDir()
	}
	os.MkdirAll(base, 0755)
	dir, err = os.MkdirTemp(base, "ptyp")
	if err != nil {
		return nil, 0, "", "", 0, err
	}
	master, slave, err := openPty(cols, rows)
	if err != nil {
		return nil, 0, "", dir, 0, err
	}
	defer master.Close()
	cmd := exec.Command(c.Fzf, args...)
	cmd.Dir = dir
	p := filepath.Join(dir, "stdin")
	os.WriteFile(p, []byte(stdin), 0600)
	in, _ := os.Open(p)
	cmd.Stdin = in
	cmd.Stderr = slave
	devnull, _ := os.OpenFile(os.DevNull, os.O_WRONLY, 0)
	cmd.Stdout = devnull
	cmd.Env = []string{"PATH=" + os.Getenv("PATH"), "HOME=" + os.Getenv("HOME"), "TERM=xterm-256color",
		"TMPDIR=" + dir, "SHELL=/bin/sh", "FZF_DEFAULT_OPTS=", "FZF_DEFAULT_COMMAND=", "LANG=C.UTF-8", "LC_ALL=C.UTF-8"}
	cmd.SysProcAttr = &syscall.SysProcAttr{Setsid: true, Setctty: true, Ctty: 2}
	err = cmd.Start()
	in.Close()
	devnull.Close()
	if err != nil {
		slave.Close()
		return nil, 0, "", dir, 0, err
	}
	pid = cmd.Process.Pid
	var buf bytes.Buffer
	rd := make(chan struct{})
	go func() {
		b := make([]byte, 65536)
		for {
			n, e := master.Read(b)
			if n > 0 {
				buf.Write(b[:n])
				if bytes.Contains(b[:n], []byte("\x1b[6n")) {
					master.Write([]byte("\x1b[1;1R"))
				}
			}
			if e != nil {
				break
			}
		}
		close(rd)
	}()
	done := make(chan error, 1)
	go func() { done <- cmd.Wait() }()
	select {
	case e := <-done:
		code = 0
		if e != nil {
			if ee, ok := e.(*exec.ExitError); ok {
				code = ee.ExitCode()
			} else {
				code = -1
			}
		}
	case <-time.After(timeout):
		cmd.Process.Kill()
		<-done
		code = -2
	}
	termAfter, _ = c14TermiosFd(int(slave.Fd()))
	slave.Close() // last slave reference gone -> the reader gets EIO
	select {
	case <-rd:
	case <-time.After(2 * time.Second):
	}
	return buf.Bytes(), code, termAfter, dir, pid, nil
}
