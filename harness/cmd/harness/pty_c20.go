package main

// pty_c20.go — helpers for C20 on top of pty.go: back-to-back POSTs on pre-opened connections,
// process-table scans by environment marker, preview log parsing.

import (
	"bytes"
	"fmt"
	"io"
	"net"
	"os"
	"path/filepath"
	"regexp"
	"strconv"
	"strings"
	"syscall"
	"time"
)

// PostBurst sends the action lists on connections opened beforehand, gap apart (busy wait), and then
// reads the answers.  Errors of individual POSTs are ignored except "connection refused" on all.
func (s *Session) PostBurst(actions []string, gap time.Duration) error {
	conns := make([]net.Conn, 0, len(actions))
	for range actions {
		c, err := net.DialTimeout("tcp", "127.0.0.1:"+strconv.Itoa(s.Port), 2*time.Second)
		if err != nil {
			for _, c := range conns {
				c.Close()
			}
			return err
		}
		conns = append(conns, c)
	}
	for i, a := range actions {
		req := "POST / HTTP/1.1\r\nHost: localhost\r\nContent-Length: " + strconv.Itoa(len(a)) + "\r\n\r\n" + a
		if i > 0 && gap > 0 {
			t0 := time.Now()
			for time.Since(t0) < gap {
			}
		}
		io.WriteString(conns[i], req)
	}
	for _, c := range conns {
		c.SetDeadline(time.Now().Add(10 * time.Second))
		io.ReadAll(c)
		c.Close()
	}
	return nil
}

// procsWithMarker lists live (non-zombie) processes whose environment contains marker.
func procsWithMarker(marker string) map[int]string {
	out := map[int]string{}
	ents, err := os.ReadDir("/proc")
	if err != nil {
		return out
	}
	mb := []byte(marker + "\x00")
	for _, e := range ents {
		pid, err := strconv.Atoi(e.Name())
		if err != nil {
			continue
		}
		env, err := os.ReadFile(filepath.Join("/proc", e.Name(), "environ"))
		if err != nil || !bytes.Contains(env, mb) {
			continue
		}
		if !pidAlive(pid) {
			continue
		}
		cmd, _ := os.ReadFile(filepath.Join("/proc", e.Name(), "cmdline"))
		out[pid] = strings.TrimSpace(strings.ReplaceAll(string(cmd), "\x00", " "))
	}
	return out
}

// pidAlive: the process exists and is not a zombie.
func pidAlive(pid int) bool {
	b, err := os.ReadFile("/proc/" + strconv.Itoa(pid) + "/stat")
	if err != nil {
		return false
	}
	// pid (comm) S ...   comm may contain spaces/parentheses: take the field after the last ')'
	i := bytes.LastIndexByte(b, ')')
	if i < 0 || i+2 >= len(b) {
		return false
	}
	st := b[i+2]
	return st != 'Z' && st != 'X'
}

// pidHasMarker guards against pid reuse.
func pidHasMarker(pid int, marker string) bool {
	env, err := os.ReadFile("/proc/" + strconv.Itoa(pid) + "/environ")
	return err == nil && bytes.Contains(env, []byte(marker+"\x00"))
}

func killMarked(marker string) {
	for pid := range procsWithMarker(marker) {
		syscall.Kill(pid, syscall.SIGKILL)
	}
}

// one `start` line of the preview log
type c20Start struct {
	Pid   int
	ID    int
	Kind  string
	N     int // -1 when {n} expanded to nothing
	HasQ  bool
	Q     string
	HasP  bool
	P     []int
	Ended bool // an `end <pid>` line follows
}

func (c c20Start) String() string {
	return fmt.Sprintf("{pid %d id %d N %d Q %v %q P %v %v ended %v}", c.Pid, c.ID, c.N, c.HasQ, c.Q, c.HasP, c.P, c.Ended)
}

// parseC20Log: lines `start <pid> <id> <kind> N=<n> [Q=<q>] [P=<n n n>]` and `end <pid>`.
// A last line without newline (being written) is ignored.
func parseC20Log(data []byte) []c20Start {
	var out []c20Start
	if i := bytes.LastIndexByte(data, '\n'); i >= 0 {
		data = data[:i]
	} else {
		return nil
	}
	for _, ln := range strings.Split(string(data), "\n") {
		f := strings.Fields(ln)
		if len(f) >= 2 && f[0] == "end" {
			pid, _ := strconv.Atoi(f[1])
			for i := len(out) - 1; i >= 0; i-- {
				if out[i].Pid == pid {
					out[i].Ended = true
					break
				}
			}
			continue
		}
		if len(f) < 5 || f[0] != "start" {
			continue
		}
		st := c20Start{N: -1}
		st.Pid, _ = strconv.Atoi(f[1])
		st.ID, _ = strconv.Atoi(f[2])
		st.Kind = f[3]
		inP := false
		for _, t := range f[4:] {
			switch {
			case strings.HasPrefix(t, "N="):
				inP = false
				if v, err := strconv.Atoi(t[2:]); err == nil {
					st.N = v
				}
			case strings.HasPrefix(t, "Q="):
				inP = false
				st.HasQ = true
				st.Q = t[2:]
			case strings.HasPrefix(t, "P="):
				inP = true
				st.HasP = true
				if v, err := strconv.Atoi(t[2:]); err == nil {
					st.P = append(st.P, v)
				}
			default:
				if inP {
					if v, err := strconv.Atoi(t); err == nil {
						st.P = append(st.P, v)
					}
				}
			}
		}
		out = append(out, st)
	}
	return out
}

// ---- preview window content (scroll stream) ----

var c20LineRe = regexp.MustCompile(`L(\d+):(\d+):(-?\d*)`)

// c20Pane reads the preview window off an interpreted screen: the rows between the window's top border (the row
// holding '╭') and its bottom border (the row below it holding '╰'), and in them the numbered output lines
// `L<k>:<id>:<n>` of the chunk script.  seen = the k of every such line, top to bottom; a line that belongs to another
// command (id or n differ) is reported as -1.  height = rows of the window (0: no bordered window on the screen).
func c20Pane(v *vtScreen, id, n int) (seen []int, height int, top string) {
	rows, _ := v.Rows()
	rt, rb := -1, -1
	for i, r := range rows {
		if rt < 0 && strings.ContainsRune(r, '╭') {
			rt = i
		} else if rt >= 0 && strings.ContainsRune(r, '╰') {
			rb = i
			break
		}
	}
	if rt < 0 || rb < 0 {
		return nil, 0, ""
	}
	height = rb - rt - 1
	for i := rt + 1; i < rb; i++ {
		if i == rt+1 {
			top = strings.TrimSpace(rows[i])
		}
		m := c20LineRe.FindStringSubmatch(rows[i])
		if m == nil {
			continue
		}
		k, _ := strconv.Atoi(m[1])
		mid, _ := strconv.Atoi(m[2])
		mn := -1
		if m[3] != "" {
			mn, _ = strconv.Atoi(m[3])
		}
		if mid != id || mn != n {
			k = -1
		}
		seen = append(seen, k)
	}
	return seen, height, top
}
