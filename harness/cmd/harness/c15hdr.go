package main

// C15 — the header changes during a session: toggle-header / hide-header / show-header, change-header(..) and
// transform-header(..).  GET / does not report the header, so the harness tracks it from the actions it sends
// (c15Hdr.apply restates Terminal.changeHeader's line splitting and the three visibility actions) and judges every
// screen against the configuration of THAT step: a hidden header gives its rows to the list, a shorter header too,
// and the rows the list takes over must show their result line and nothing of the header that stood there.

import (
	"strconv"
	"strings"
)

type c15Hdr struct {
	Visible bool
	Lines   []string // header0: --header, replaced by change-header / transform-header
	// --layout=reverse-list with --header-lines: the header lives in separate windows that exist as of the last
	// resizeWindows; tracked only to recognise the known finding hide-header-keeps-header-lines
	layout, hl int
	hlWin      bool
	hWin       int // height of the --header window, -1: none
}

func newC15Hdr(cs *c15Case) *c15Hdr {
	h := &c15Hdr{Visible: true, Lines: append([]string{}, cs.Header...), layout: cs.Layout, hl: cs.HLines, hWin: -1}
	h.resize()
	return h
}

// resizeWindows: hasHeaderLinesWindow / hasHeaderWindow in the plain configuration
func (h *c15Hdr) resize() {
	h.hlWin = h.layout == 2 && h.Visible && h.hl > 0
	h.hWin = -1
	if h.hlWin && len(h.Lines) > 0 {
		h.hWin = len(h.Lines)
	}
}

// reqHeader: resizeIfNeeded (only the reverse-list layout has a visible header-lines shape)
func (h *c15Hdr) reqHeader() {
	if h.layout != 2 {
		return
	}
	primary := 0
	if h.Visible {
		primary = len(h.Lines) + h.hl
	}
	primary -= h.hl
	if (h.hWin < 0 && primary > 0) || (h.hWin >= 0 && primary != h.hWin) || (!h.hlWin && h.hl > 0) {
		h.resize()
	}
}

// stale: reverse-list with --header-lines — what the windows show is not what the state says
func (h *c15Hdr) stale() bool {
	if h.layout != 2 || h.hl == 0 {
		return false
	}
	wantHl := h.Visible
	wantH := h.Visible && len(h.Lines) > 0
	return h.hlWin != wantHl || (h.hWin >= 0) != wantH
}

// Terminal.changeHeader
func c15SplitHeader(s string) []string {
	if len(s) == 0 {
		return nil
	}
	return strings.Split(strings.TrimSuffix(s, "\n"), "\n")
}

const c15PrintfPrefix = "transform-header(printf '%s\\n'"

// c15HeaderActionArg: the header text an action installs (ok=false: not a header-text action)
func c15HeaderActionArg(a string) (string, bool) {
	switch {
	case strings.HasPrefix(a, "change-header(") && strings.HasSuffix(a, ")"):
		return a[len("change-header(") : len(a)-1], true
	case strings.HasPrefix(a, c15PrintfPrefix) && strings.HasSuffix(a, ")"):
		// printf '%s\n' 'l1' 'l2' ...: one output line per argument (none: printf prints the format once, "\n")
		rest := a[len(c15PrintfPrefix) : len(a)-1]
		var out strings.Builder
		n := 0
		for {
			i := strings.IndexByte(rest, '\'')
			if i < 0 {
				break
			}
			j := strings.IndexByte(rest[i+1:], '\'')
			if j < 0 {
				break
			}
			out.WriteString(rest[i+1:i+1+j] + "\n")
			rest = rest[i+j+2:]
			n++
		}
		if n == 0 {
			return "\n", true
		}
		return out.String(), true
	case a == "transform-header(true)":
		return "", true
	}
	return "", false
}

func c15IsHeaderAction(a string) bool {
	if a == "toggle-header" || a == "hide-header" || a == "show-header" {
		return true
	}
	_, ok := c15HeaderActionArg(a)
	return ok
}

func c15HasHeaderAction(actions string) bool {
	for _, a := range strings.Split(actions, "+") {
		if c15IsHeaderAction(a) {
			return true
		}
	}
	return false
}

func (h *c15Hdr) apply(actions string) {
	for _, a := range strings.Split(actions, "+") {
		switch a {
		case "toggle-header":
			h.Visible = !h.Visible
			h.reqHeader()
			continue
		case "hide-header":
			h.Visible = false
			h.reqHeader()
			continue
		case "show-header":
			h.Visible = true
			h.reqHeader()
			continue
		}
		if txt, ok := c15HeaderActionArg(a); ok {
			lines := c15SplitHeader(txt)
			changed := len(lines) != len(h.Lines)
			h.Lines = lines
			if changed && h.hWin >= 0 {
				h.resize() // reqFullRedraw
			} else {
				h.reqHeader()
			}
		}
	}
}

// the header the screen has to show at this point of the history
func (h *c15Hdr) header() []string {
	if !h.Visible {
		return nil
	}
	return h.Lines
}
func (h *c15Hdr) hlines(cs *c15Case) int {
	if !h.Visible {
		return 0
	}
	return cs.HLines
}

// what the windows of the reverse-list layout show (differs from header()/hlines() only when stale)
func (h *c15Hdr) shown(cs *c15Case) ([]string, int) {
	if !h.stale() {
		return h.header(), h.hlines(cs)
	}
	var hd []string
	if h.hWin >= 0 {
		hd = h.Lines
	}
	n := 0
	if h.hlWin {
		n = cs.HLines
	}
	return hd, n
}

// ---- generators ----

// room for --header lines: prompt rows, --header-lines and one list row stay
func (cs *c15Case) headerRoom() int {
	return cs.H - cs.promptLines() - cs.HLines - 1
}

func c15HeaderText(r *RNG, cs *c15Case, n int, long bool) []string {
	out := make([]string, n)
	for i := range out {
		if long { // longer than most items: what stays behind is visible
			k := r.Range(cs.W/2, cs.W+4)
			var sb strings.Builder
			pool := []rune("HEADRLINWXYZ=#*-_. 0123456789")
			for j := 0; j < k; j++ {
				sb.WriteRune(pool[r.Intn(len(pool))])
			}
			out[i] = sb.String()
		} else {
			out[i] = c15Line(r, cs.W, false)
		}
	}
	// changeHeader drops one trailing newline: keep the last line non-empty so that the line count is what was asked for
	if n > 0 && out[n-1] == "" {
		out[n-1] = "h" + strconv.Itoa(n)
	}
	return out
}

// rows the header takes inside the list window (reverse-list with --header-lines: none, it has windows of its own)
func (h *c15Hdr) inList() int {
	if !h.Visible || (h.layout == 2 && h.hl > 0) {
		return 0
	}
	return len(h.Lines) + h.hl
}

// c15KnownHeaderDefect: would action a, sent in state h, run into one of the two known findings of the
// reverse-list layout?  (hide-header-keeps-header-lines: the windows go stale;  reverse-list-header-remnant: the
// header inside the list window disappears without a resize)
func c15KnownHeaderDefect(h *c15Hdr, a string) bool {
	if h.layout != 2 {
		return false
	}
	g := *h
	g.Lines = append([]string{}, h.Lines...)
	g.apply(a)
	return g.stale() || (h.inList() > 0 && g.inList() == 0)
}

// one header action, chosen for the tracked state h (which it updates).  allowDefect: the history may walk into
// reverse-list-header-remnant (exact sessions only: the classifier is the extracted model); otherwise such
// actions are replaced (the corpus keeps one case of each finding)
func c15GenHeaderAction(r *RNG, cs *c15Case, h *c15Hdr, long, allowDefect bool) string {
	room := cs.headerRoom()
	text := func(n int) string {
		lines := c15HeaderText(r, cs, n, long)
		switch {
		case n == 0 && r.Chance(1, 4):
			return "transform-header(true)"
		case n > 0 && r.Chance(1, 6):
			a := c15PrintfPrefix
			for _, l := range lines {
				a += " '" + l + "'"
			}
			return a + ")"
		}
		return "change-header(" + strings.Join(lines, "\n") + ")"
	}
	var a string
	k := r.Intn(10)
	switch {
	case k < 4:
		a = "toggle-header"
	case k == 4:
		a = "hide-header"
	case k == 5 || room <= 0:
		a = "show-header"
	default:
		a = text(r.Range(0, min(room, 3)))
	}
	if c15KnownHeaderDefect(h, a) && !(allowDefect && cs.HLines == 0) {
		if room > 0 {
			a = text(r.Range(1, min(room, 3)))
		} else {
			a = "show-header"
		}
		if c15KnownHeaderDefect(h, a) {
			a = "show-header"
		}
	}
	h.apply(a)
	return a
}

// c15AddHeaderActions inserts header actions into a generated history (about one step in `every`)
func c15AddHeaderActions(cs *c15Case, r *RNG, every int, long bool) {
	h := newC15Hdr(cs)
	allowDefect := cs.exact() && r.Chance(1, 3)
	out := make([]string, 0, len(cs.Actions)+len(cs.Actions)/every+2)
	for _, a := range cs.Actions {
		if r.Chance(1, every) {
			out = append(out, c15GenHeaderAction(r, cs, h, long, allowDefect))
		}
		out = append(out, a)
	}
	out = append(out, c15GenHeaderAction(r, cs, h, long, allowDefect))
	cs.Actions = out
}

// c15KindHdr: the region "a list row takes over a row that showed something else": short items under a long
// header (--header and/or --header-lines), and a history in which the header disappears, shrinks, grows and
// comes back between movements, selections and queries
func c15KindHdr(cs *c15Case, r *RNG) {
	if cs.Unicode || cs.mrows() {
		return
	}
	room := cs.headerRoom()
	if room > 0 && (len(cs.Header) == 0 || r.Chance(1, 2)) {
		cs.Header = c15HeaderText(r, cs, r.Range(1, min(room, 3)), true)
	}
	if r.Chance(2, 3) { // items shorter than the header text
		for i := range cs.Lines {
			if i < cs.HLines && r.Chance(1, 2) {
				continue
			}
			if r.Chance(3, 4) {
				cs.Lines[i] = c15Line(r, 8, false)
			}
		}
	}
	c15AddHeaderActions(cs, r, 3, r.Chance(2, 3))
}
