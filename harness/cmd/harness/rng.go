package main

// splitmix64: every random choice of a run derives from one state seeded by VERIF_SEED.
type RNG struct{ s uint64 }

func NewRNG(seed uint64) *RNG { return &RNG{s: seed} }
func (r *RNG) Next() uint64 {
	r.s += 0x9e3779b97f4a7c15
	z := r.s
	z = (z ^ (z >> 30)) * 0xbf58476d1ce4e5b9
	z = (z ^ (z >> 27)) * 0x94d049bb133111eb
	return z ^ (z >> 31)
}
func (r *RNG) Intn(n int) int {
	if n <= 0 {
		return 0
	}
	return int(r.Next() % uint64(n))
}
func (r *RNG) Range(lo, hi int) int { return lo + r.Intn(hi-lo+1) } // inclusive
func (r *RNG) Bool() bool          { return r.Next()&1 == 1 }
func (r *RNG) Chance(num, den int) bool { return r.Intn(den) < num }
func (r *RNG) Fork() *RNG          { return NewRNG(r.Next()) }
func Pick[T any](r *RNG, xs []T) T { return xs[r.Intn(len(xs))] }
