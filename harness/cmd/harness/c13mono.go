package main

// C13, add-on (add-only file): the hypotheses and the conclusion of Properties/C13.v's
// monotone_of_fzf_patterns / key_determines_of_fzf_patterns, evaluated on the implementation.
//
//  1. fold_laws (coq/proofs/PatternMonoBasics.v) for EVERY rune 0..0x10FFFF of Go's unicode.ToLower and algo's
//     normalizeRune; the runes at which basic_law (needed under --no-extended only) fails are recorded.
//  2. extended-search mode, real BuildPattern / MatchItem: for random query pairs (q, q') where q is cacheable and
//     CacheKey(q) is a proper prefix/suffix of CacheKey(q'), every line q' matches is matched by q (monotone); where
//     both are cacheable with equal keys, they match alike (key_determines).
//
// It wraps the C13 runner (this file sorts after c13.go, so the runner is registered when init runs).

import (
	"encoding/json"
	"fmt"
	"os"
	"strings"
	"unicode"

	fzf "github.com/junegunn/fzf/src"
	"github.com/junegunn/fzf/src/algo"
	"github.com/junegunn/fzf/src/util"
)

func init() {
	prev := runners["C13"]
	runners["C13"] = func(c *Ctx) {
		if c.Replay == "" {
			if os.Getenv("VERIF_C13_CHILD") == "" {
				c13FoldLaws(c)
				c13MonoOnImpl(c)
			}
		} else if b, err := os.ReadFile(c.Replay); err == nil {
			var w struct{ Input c13MonoCase }
			var bare c13MonoCase
			if json.Unmarshal(b, &w) == nil && w.Input.Kind == "mono" {
				c13MonoReplay(c, &w.Input)
				return
			} else if json.Unmarshal(b, &bare) == nil && bare.Kind == "mono" {
				c13MonoReplay(c, &bare)
				return
			} else if (json.Unmarshal(b, &w) == nil && w.Input.Kind == "rune") || (json.Unmarshal(b, &bare) == nil && bare.Kind == "rune") {
				c13FoldLaws(c)
				return
			}
		}
		prev(c)
	}
}

type c13MonoCase struct {
	Kind      string `json:"kind"`
	Fuzzy     bool   `json:"fuzzy"`
	Case      int    `json:"case"`
	Normalize bool   `json:"normalize"`
	Q         string `json:"q"`
	Q2        string `json:"q2"`
	Line      string `json:"line"`
}

// one recorded case again: forward and backward matching
func c13MonoReplay(c *Ctx, mc *c13MonoCase) {
	c13Init()
	slab := util.MakeSlab(100*1024, 2048)
	var next int32
	cl := fzf.NewChunkList(fzf.NewChunkCache(), fzf.VerifItemBuilder(&next))
	cl.Push([]byte(mc.Line))
	chunks, _, _ := cl.Snapshot(0)
	it := fzf.VerifCellItem(chunks[0], 0)
	for _, fwd := range []bool{true, false} {
		build := func(q string) *fzf.Pattern {
			return fzf.VerifBuildSearchPattern(fzf.NewChunkCache(), map[string]*fzf.Pattern{}, mc.Fuzzy, true, fzf.Case(mc.Case), mc.Normalize, fwd, false, true, 0, 0, 0, []rune(q))
		}
		p, p2 := build(mc.Q), build(mc.Q2)
		_, k, cacheable, _, _ := fzf.VerifPatternInfo(p)
		_, k2, cacheable2, _, _ := fzf.VerifPatternInfo(p2)
		same := cacheable && k == k2 && cacheable2
		aff := cacheable && len(k) > 0 && len(k) < len(k2) && (strings.HasPrefix(k2, k) || strings.HasSuffix(k2, k))
		m1, _ := fzf.VerifMatchItemKey(p, it, slab)
		m2, _ := fzf.VerifMatchItemKey(p2, it, slab)
		c.Rep.Eval("mono-replay", true)
		if (aff && m2 && !m1) || (same && m1 != m2) {
			c.Rep.Disagreement(Disagreement{Kind: "spec", Name: "monotone_of_fzf_patterns", Input: mc,
				Impl: fmt.Sprintf("key %q, key' %q: q' matches=%v q matches=%v", k, k2, m2, m1), Expect: "q matches whatever q' matches / equal keys match alike"})
			return
		}
	}
}

func c13Lower1(r rune) rune {
	if r >= 'A' && r <= 'Z' {
		return r + 32
	} else if r > unicode.MaxASCII {
		return unicode.To(unicode.LowerCase, r)
	}
	return r
}

func c13FoldLaws(c *Ctx) {
	N, L := algo.VerifNormalizeRune, c13Lower1
	basic := []string{}
	for r := rune(0); r <= unicode.MaxRune; r++ {
		bad := ""
		switch {
		case N(N(r)) != N(r):
			bad = "fl_idem"
		case L(N(r)) == N(r) && N(L(r)) != N(r):
			bad = "fl_low_norm"
		case L(N(r)) == N(r) && L(r) != r:
			bad = "fl_norm_upper"
		case N(L(r)) == L(r) && N(L(N(r))) != L(N(r)):
			bad = "fl_norm_low_norm"
		case L(r) == 9 && r != 9:
			bad = "fl_low_tab"
		case N(r) == 9 && r != 9:
			bad = "fl_norm_tab"
		case r < 192 && N(r) != r:
			bad = "norm_ascii"
		}
		if bad != "" {
			c.Rep.Disagreement(Disagreement{Kind: "spec", Name: "fold_laws." + bad, Input: map[string]interface{}{"kind": "rune", "rune": int(r)},
				Impl: fmt.Sprintf("%U: lower %U normalize %U", r, L(r), N(r)), Expect: "the law of coq/proofs/PatternMonoBasics.v"})
			return
		}
		if N(L(r)) == L(r) && N(r) != r {
			basic = append(basic, fmt.Sprintf("%U", r))
		}
	}
	c.Rep.SpecChecks++
	c.Rep.CountN("fold_laws_runes_checked", int(unicode.MaxRune)+1)
	c.Rep.Extra["basic_law_fails_at"] = basic // the +x finding (monotone_basic_refuted) lives exactly here
}

var c13MonoAlpha = []rune{'a', 'b', 'c', 'A', 'B', ' ', ' ', ' ', '\\', '\t', '|', '!', '\'', '^', '$', 'é', 'É', 'ā', 'Ā', 'e', 'E', 'İ', 'ı', 'i', 'I', 'K', 'k', 'ß', 'ẞ'}
var c13MonoLine = []rune{'a', 'b', 'c', 'A', 'B', ' ', '\t', 'é', 'É', 'ā', 'Ā', 'e', 'E', 'İ', 'ı', 'i', 'I', 'K', 'k', '|', '$', '^', '\'', '\\', 'ß'}

func c13MonoOnImpl(c *Ctx) {
	c13Init()
	n := c.N(60000, 3000000)
	rng := c.Rng.Fork()
	gen := func(n int, al []rune) []rune {
		r := make([]rune, rng.Intn(n))
		for i := range r {
			r[i] = al[rng.Intn(len(al))]
		}
		return r
	}
	slab := util.MakeSlab(100*1024, 2048)
	var next int32
	cl := fzf.NewChunkList(fzf.NewChunkCache(), fzf.VerifItemBuilder(&next))
	lines := [][]rune{}
	for i := 0; i < 100; i++ {
		l := gen(9, c13MonoLine)
		if len(l) > 0 && l[0] == '!' {
			l[0] = 'a'
		}
		lines = append(lines, l)
		cl.Push([]byte(string(l)))
	}
	chunks, _, _ := cl.Snapshot(0)
	pairs := 0
	for iter := 0; iter < n; iter++ {
		fuzzy, cm, norm, fwd := rng.Bool(), rng.Intn(3), rng.Intn(3) != 0, rng.Bool()
		build := func(q []rune) *fzf.Pattern {
			return fzf.VerifBuildSearchPattern(fzf.NewChunkCache(), map[string]*fzf.Pattern{}, fuzzy, true, fzf.Case(cm), norm, fwd, false, true, 0, 0, 0, q)
		}
		q1 := gen(5, c13MonoAlpha)
		var q2 []rune
		switch rng.Intn(3) {
		case 0:
			q2 = append(append([]rune{}, q1...), gen(4, c13MonoAlpha)...)
		case 1:
			q2 = append(gen(4, c13MonoAlpha), q1...)
		default:
			q2 = gen(7, c13MonoAlpha)
		}
		p, p2 := build(q1), build(q2)
		_, k, cacheable, _, _ := fzf.VerifPatternInfo(p)
		_, k2, cacheable2, _, _ := fzf.VerifPatternInfo(p2)
		if !cacheable {
			continue
		}
		same := k == k2 && cacheable2
		aff := len(k) > 0 && len(k) < len(k2) && (strings.HasPrefix(k2, k) || strings.HasSuffix(k2, k))
		if !same && !aff {
			continue
		}
		pairs++
		hit := false
		for j := 0; j < 100; j++ {
			it := fzf.VerifCellItem(chunks[0], j)
			m1, _ := fzf.VerifMatchItemKey(p, it, slab)
			m2, _ := fzf.VerifMatchItemKey(p2, it, slab)
			hit = hit || m2
			if (aff && m2 && !m1) || (same && m1 != m2) {
				name := "monotone_of_fzf_patterns"
				if same {
					name = "key_determines_of_fzf_patterns"
				}
				c.Rep.Disagreement(Disagreement{Kind: "spec", Name: name,
					Input: map[string]interface{}{"kind": "mono", "fuzzy": fuzzy, "case": cm, "normalize": norm, "q": string(q1), "q2": string(q2), "line": string(lines[j])},
					Impl:  fmt.Sprintf("key %q cacheable, key' %q: q' matches=%v q matches=%v", k, k2, m2, m1), Expect: "q matches whatever q' matches / equal keys match alike"})
				return
			}
		}
		c.Rep.Eval(fmt.Sprintf("mono|%v|%d|%v|%s|%s", fuzzy, cm, norm, string(q1), string(q2)), hit && aff)
	}
	c.Rep.SpecChecks += pairs
	c.Rep.CountN("mono_pairs_extended", pairs)
}
