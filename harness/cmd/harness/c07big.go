package main

// C07, large inputs: "what fzf prints is the original line, byte for byte" also when the input is far larger than the
// reader's 64 KiB buffer and its 128 KiB slab, so that records straddle every internal boundary (added after seeded
// change C07-5: the other C07 streams stay below 64 KiB).  Plain process runs of `fzf --filter`, spec evaluated on the
// implementation's stdout in Go (the expected output is the input itself, or its reversal / its matching sub-list).

import (
	"fmt"
	"strings"
)

type c07Big struct {
	Kind    string `json:"kind"` // "big"
	Seed    uint64 `json:"seed"`
	Records int    `json:"records"`
	MaxLen  int    `json:"maxlen"`
	Read0   bool   `json:"read0,omitempty"`
	Tac     bool   `json:"tac,omitempty"`
	NoSort  bool   `json:"nosort,omitempty"`
	Query   string `json:"query,omitempty"`
	WithNth bool   `json:"withnth,omitempty"`
}

func c07BigRecords(cs *c07Big) []string {
	r := NewRNG(cs.Seed)
	recs := make([]string, cs.Records)
	for i := range recs {
		n := r.Intn(cs.MaxLen + 1)
		if r.Chance(1, 50) {
			n = 3000 + r.Intn(9000) // a few long records
		}
		var b strings.Builder
		fmt.Fprintf(&b, "%06d:", i)
		for b.Len() < n {
			b.WriteByte("abcdefghijklmnopqrstuvwxyz0123456789 _-/."[r.Intn(41)])
		}
		recs[i] = b.String()
	}
	return recs
}

func c07BigCheck(c *Ctx, cs *c07Big) {
	rep := c.Rep
	recs := c07BigRecords(cs)
	sep := "\n"
	args := []string{"--filter", cs.Query}
	if cs.Read0 {
		sep = "\x00"
		args = append(args, "--read0", "--print0")
	}
	if cs.Tac {
		args = append(args, "--tac")
	}
	if cs.NoSort || cs.Query != "" {
		args = append(args, "--no-sort") // keep input order: ranking is C04's subject
	}
	if cs.Query != "" {
		args = append(args, "--exact", "+i", "--literal")
	}
	if cs.WithNth {
		args = append(args, "--with-nth", "1..", "--delimiter", ":")
	}
	stdin := strings.Join(recs, sep) + sep
	out, errs, code := RunFzf(c, args, []byte(stdin))
	want := []string{}
	for _, x := range recs {
		if cs.Query == "" || strings.Contains(x, cs.Query) {
			want = append(want, x)
		}
	}
	if cs.Tac {
		for i, j := 0, len(want)-1; i < j; i, j = i+1, j-1 {
			want[i], want[j] = want[j], want[i]
		}
	}
	exp := ""
	if len(want) > 0 {
		exp = strings.Join(want, sep) + sep
	}
	rep.ImplTraces++
	rep.SpecChecks++
	rep.Eval(fmt.Sprintf("big:%d:%d:%v:%v:%v:%q:%v", cs.Seed, cs.Records, cs.Read0, cs.Tac, cs.NoSort, cs.Query, cs.WithNth), len(want) > 1)
	rep.Count(fmt.Sprintf("big:bytes>=%dK", (len(stdin)/65536)*64))
	wantCode := 0
	if len(want) == 0 {
		wantCode = 1
	}
	if out != exp || code != wantCode {
		// locate the first differing record for the report
		got := strings.Split(strings.TrimSuffix(out, sep), sep)
		at, gi, wi := -1, "", ""
		for i := 0; i < len(got) || i < len(want); i++ {
			g, w := "", ""
			if i < len(got) {
				g = got[i]
			}
			if i < len(want) {
				w = want[i]
			}
			if g != w {
				at, gi, wi = i, g, w
				break
			}
		}
		clip := func(s string) string {
			if len(s) > 80 {
				return s[:80] + "..."
			}
			return s
		}
		rep.Disagreement(Disagreement{Kind: "spec", Name: "output_is_input(large input)", Input: cs,
			Impl:   fmt.Sprintf("exit %d, %d records, first difference at output record %d: %q; stderr %q", code, len(got), at, clip(gi), clip(errs)),
			Expect: fmt.Sprintf("exit %d, %d records, there: %q (the input records, byte for byte%s)", wantCode, len(want), clip(wi), map[bool]string{true: ", reversed", false: ""}[cs.Tac])})
	}
}

func c07BigGen(r *RNG) *c07Big {
	cs := &c07Big{Kind: "big", Seed: r.Next(), Records: 2500 + r.Intn(9000), MaxLen: 20 + r.Intn(90)}
	cs.Read0 = r.Chance(1, 4)
	cs.Tac = r.Chance(1, 4)
	cs.NoSort = r.Chance(1, 3)
	cs.WithNth = r.Chance(1, 4)
	if r.Chance(1, 3) {
		cs.Query = string("abcdefghijklmnopqrstuvwxyz"[r.Intn(26)])
		cs.NoSort = true
	}
	return cs
}

func c07BigStream(c *Ctx) {
	n := c.N(12, 200)
	cases := make([]*c07Big, n)
	for i := range cases {
		cases[i] = c07BigGen(c.Rng.Fork())
	}
	parallel(c, n, func(i int, _ *RNG) { c07BigCheck(c, cases[i]) })
}
