package main

import (
	"encoding/json"
	"os"
	"fmt"
	"sort"
	"strings"
)

// C05: the answer is a function of (line, query, options) only.
type algoPair struct {
	A, B algoCase
	What string `json:"what"`
}

func projAns(v Val, dropStart, dropPos bool) string {
	if len(v.L) < 4 {
		return v.String()
	}
	s := v.L[0].String()
	if dropStart {
		s = "_"
	}
	p := "_"
	if !dropPos && v.L[3].IsList {
		p = Ints(sortedInts(v.L[3].IntList())).String()
	}
	return fmt.Sprintf("%s %s %s %s", s, v.L[1].String(), v.L[2].String(), p)
}

func c05Pair(c *Ctx, a, b algoCase, what string, r *RNG, dropStart, dropPos bool) {
	algoMu.Lock()
	setScheme(a.Scheme)
	ra, pa := algoImpl(a, r)
	rb, pb := algoImpl(b, r)
	algoMu.Unlock()
	rep := c.Rep
	rep.ImplTraces += 2
	rep.SpecChecks++
	rep.Eval(algoKey(a)+algoKey(b), len(a.Pat) > 0 && len(ra.L) > 0)
	rep.Count("pair:" + what)
	if pa != "" || pb != "" {
		rep.Disagreement(Disagreement{Kind: "spec", Name: "no_crash", Input: algoPair{a, b, what}, Impl: pa + "|" + pb, Expect: "answers"})
		return
	}
	if what == "repr" { // the trimmed length (a sort key) must not depend on the representation either
		ca, cb := mkChars(a.Text, a.Bytes), mkChars(b.Text, b.Bytes)
		if la, lb := ca.TrimLength(), cb.TrimLength(); la != lb {
			rep.Disagreement(Disagreement{Kind: "spec", Name: "purity:repr(trim length)", Input: algoPair{a, b, what}, Impl: fmt.Sprint(la, " vs ", lb), Expect: "equal trimmed lengths"})
		}
	}
	if projAns(ra, dropStart, dropPos) != projAns(rb, dropStart, dropPos) {
		known := ""
		// K1: V2 Start without positions is the first occurrence of pat[0] in the window, with positions the first matched position
		if what == "withpos" && a.Fn == 2 && len(a.Pat) >= 2 && projAns(ra, true, true) == projAns(rb, true, true) {
			known = "K1"
		}
		rep.Disagreement(Disagreement{Kind: "spec", Name: "purity:" + what, Input: algoPair{a, b, what}, Impl: ra.String() + " vs " + rb.String(), Expect: "equal answers", Known: known})
	}
	if len(ra.L) > 0 && len(a.Text) > 3 {
		rep.Sample(algoPair{a, b, what})
	}
}

func runC05(c *Ctx) {
	c.Rep.Rule = "pairs of calls that differ only in slab state/history, text representation (bytes vs runes) or withPos, and process-level (list, sub-list) pairs for every tiebreak; a pair is non-trivial when the pattern is non-empty and matches; distinct by JSON of the pair"
	fns := []int{1, 2, 3, 4, 5, 6, 7}
	loadNth := func(path string) *c05NthCase {
		b, err := os.ReadFile(path)
		if err != nil {
			return nil
		}
		var w struct{ Input c05NthCase }
		if json.Unmarshal(b, &w) == nil && w.Input.Kind == "nthseq" {
			return &w.Input
		}
		var cs c05NthCase
		if json.Unmarshal(b, &cs) == nil && cs.Kind == "nthseq" {
			return &cs
		}
		return nil
	}
	if c.Replay != "" {
		if n := loadNth(c.Replay); n != nil {
			c05NthRun(c, n)
			return
		}
		cs := loadAlgoCases(c.Replay)
		if len(cs) == 2 {
			c05Pair(c, cs[0], cs[1], "replay", NewRNG(1), false, false)
		}
		return
	}
	for _, f := range corpusFiles(c) {
		if n := loadNth(f); n != nil {
			c05NthRun(c, n)
		}
	}
	corpus := [][]algoCase{}
	for _, f := range corpusFiles(c) {
		if cs := loadAlgoCases(f); len(cs) == 2 {
			corpus = append(corpus, cs)
		}
	}
	sort.SliceStable(corpus, func(i, j int) bool { return schemeRank[corpus[i][0].Scheme] < schemeRank[corpus[j][0].Scheme] })
	ci := 0
	for _, sch := range schemeOrder {
		for ; ci < len(corpus) && corpus[ci][0].Scheme == sch; ci++ {
			what := "corpus"
			if corpus[ci][0].WithPos != corpus[ci][1].WithPos {
				what = "withpos"
			}
			c05Pair(c, corpus[ci][0], corpus[ci][1], what, NewRNG(1), false, what == "withpos")
		}
		n := c.N(12000, 400000)
		parallel(c, n, func(i int, r *RNG) {
			maxLen := 40
			if i%20 == 0 {
				maxLen = 300
			}
			a := randCase(r, maxLen, fns)
			a.Scheme = sch
			if i%3 != 0 {
				a.Fn = 2 // the matcher that actually uses scratch memory
			}
			if a.Slab == "tiny" {
				a.Slab = "clean"
			}
			b := a
			if i%5 == 4 { // the slab itself must not change with use: a call on a slab that has already served an over-size request
				a = c05V1V2Case(r, sch)
				b = a
				b.Slab = "grown"
				c05Pair(c, a, b, "slab-grown", r, false, false)
				return
			}
			switch i % 4 {
			case 0, 1: // slab state / history: everything must agree, positions included
				b.Slab = Pick(r, []string{"nil", "clean", "dirty", "hist"})
				for b.Slab == a.Slab {
					b.Slab = Pick(r, []string{"nil", "clean", "dirty", "hist"})
				}
				if a.Slab == "small" {
					a.Slab = "dirty"
				}
				c05Pair(c, a, b, "slab", r, false, false)
			case 2: // representation
				if !isASCII(a.Text) {
					a.Text = genText(r, len(a.Text), true)
					a.Pat = genPat(r, a.Text, max(len(a.Pat), 1))
					finishCase(r, &a)
				}
				if r.Chance(1, 3) {
					for k := r.Intn(3); k >= 0; k-- {
						a.Text = append([]int{Pick(r, []int{' ', '\t', '\v', '\f', '\r', '\n'})}, a.Text...)
						a.Text = append(a.Text, Pick(r, []int{' ', '\t', '\v', '\f', '\r', '\n'}))
					}
					finishCase(r, &a)
				}
				a.Bytes = true
				b = a
				b.Bytes = false
				c05Pair(c, a, b, "repr", r, false, false)
			case 3: // position tracking must not change match/End/Score (Start: finding K1)
				a.WithPos = true
				b = a
				b.WithPos = false
				c05Pair(c, a, b, "withpos", r, false, true)
			}
		})
	}
	c05Process(c)
	c05NthStream(c)
}

// c05V1V2Case: a call on a slab one cell too small for N*M (FuzzyMatchV2 hands over to the greedy V1) on a text where
// the two algorithms disagree: the pattern scattered first, contiguous at the end.
func c05V1V2Case(r *RNG, sch int) algoCase {
	letters := []int{'a', 'b', 'c', 'd', 'e'}
	m := 2 + r.Intn(3)
	pat := append([]int{}, letters[:m]...)
	text := []int{}
	noise := func(k int) {
		for ; k > 0; k-- {
			text = append(text, Pick(r, []int{'x', 'y', '.', ' ', '_', '0'}))
		}
	}
	noise(r.Intn(3))
	for _, p := range pat {
		text = append(text, p)
		noise(1 + r.Intn(4))
	}
	noise(r.Intn(6))
	text = append(text, pat...)
	noise(r.Intn(3))
	cs := algoCase{Fn: 2, CS: r.Bool(), NM: r.Bool(), Fwd: r.Bool(), WithPos: r.Bool(), Scheme: sch, Text: text, Pat: pat, Slab: "tiny"}
	cs.Bytes = r.Chance(3, 4)
	cs.SlabCap = len(text)*len(pat) - 1 - r.Intn(3)
	return cs
}

// process level: filtering a sub-list gives the full result restricted to it, in the same relative order
func c05Process(c *Ctx) {
	ties := []string{"", "length", "begin", "end", "index", "chunk", "pathname", "length,begin", "end,length", "chunk,length", "pathname,length", "begin,index"}
	n := c.N(60, 1500)
	parallel(c, n, func(i int, r *RNG) {
		words := []string{"foo", "bar", "fo/o", "x_foo", "Foo Bar", "f o o", "oof", "a/b/foo.go", "src/foo/bar", "ffoo", "foofoo", " foo ", "fóo", "FOO"}
		nl := 5 + r.Intn(120)
		big := r.Chance(1, 3)
		if big {
			nl = 150 + r.Intn(300) // several chunks, hence several partitions of the matcher
		}
		lines := make([]string, nl)
		for k := range lines {
			lines[k] = Pick(r, words) + Pick(r, []string{"", "/", " ", "_", "x"}) + Pick(r, words)
			if r.Chance(1, 4) {
				lines[k] = fmt.Sprintf("%s%d", lines[k], r.Intn(50))
			}
			if big {
				// distinct lines with many rank ties across chunks: only the input position can order them
				lines[k] = fmt.Sprintf("%s %04d", Pick(r, []string{"foo", "foo", "x_foo", "fo/o"}), k)
			}
		}
		sub := []string{}
		for _, l := range lines {
			if r.Chance(2, 3) {
				sub = append(sub, l)
			}
		}
		q := Pick(r, []string{"foo", "fo", "'foo", "^foo", "foo$", "f o", "bar | foo", "!bar foo", "oo", "fb", "'foo'"})
		args := []string{"-f", q}
		tb := Pick(r, ties)
		if tb != "" {
			args = append(args, "--tiebreak="+tb)
		}
		if r.Chance(1, 4) {
			args = append(args, "--scheme="+Pick(r, []string{"default", "path", "history"}))
		}
		if r.Chance(1, 5) || (big && r.Chance(1, 2)) {
			args = append(args, "--tac")
		}
		if r.Chance(1, 6) {
			args = append(args, "+s")
		}
		full, _, _ := RunFzf(c, args, []byte(strings.Join(lines, "\n")+"\n"))
		part, _, _ := RunFzf(c, args, []byte(strings.Join(sub, "\n")+"\n"))
		// restrict: remove from `full` one occurrence per line not in sub (multiset semantics)
		need := map[string]int{}
		for _, l := range sub {
			need[l]++
		}
		have := map[string]int{}
		for _, l := range lines {
			have[l]++
		}
		c.Rep.ImplTraces += 2
		c.Rep.SpecChecks++
		c.Rep.Count("process-pair")
		c.Rep.Eval(strings.Join(args, " ")+"|"+strings.Join(lines, "\n")+"|"+strings.Join(sub, "\n"), len(part) > 0)
		// lines are not unique, so compare the order of DISTINCT lines (first appearance) — well defined for both
		dedup := func(out string, keep func(string) bool) []string {
			seen := map[string]bool{}
			res := []string{}
			for _, l := range strings.Split(strings.TrimSuffix(out, "\n"), "\n") {
				if l == "" && out == "" {
					continue
				}
				if !seen[l] && keep(l) {
					seen[l] = true
					res = append(res, l)
				}
			}
			return res
		}
		a := dedup(full, func(l string) bool { return need[l] > 0 })
		b := dedup(part, func(string) bool { return true })
		// with duplicates, the index tiebreak can order equal-key distinct lines differently only through index; compare as sets plus order of score classes is too weak, so require unique lines when comparing order
		uniq := true
		for _, v := range have {
			if v > 1 {
				uniq = false
			}
		}
		same := len(a) == len(b)
		if same {
			if uniq {
				for k := range a {
					if a[k] != b[k] {
						same = false
					}
				}
			} else {
				sa, sb := append([]string{}, a...), append([]string{}, b...)
				sort.Strings(sa)
				sort.Strings(sb)
				for k := range sa {
					if sa[k] != sb[k] {
						same = false
					}
				}
			}
		}
		if !same {
			c.Rep.Disagreement(Disagreement{Kind: "spec", Name: "sublist_restriction", Input: map[string]interface{}{"args": args, "lines": lines, "sub": sub},
				Impl: strings.Join(b, "\n"), Expect: strings.Join(a, "\n")})
		}
	})
}

func init() { runners["C05"] = runC05 }
