package main

// C13 (and the deterministic core of C08): loading and searching run concurrently without interfering.
//
//  A  chunk list op sequences (push / rejected push / clear / snapshot with and without --tail; old snapshots
//     re-read after more pushes)                                      model op 1301, spec op 1302
//  B  chunk cache op sequences                                         model op 1303
//  C  Matcher.Loop fed request sequences through Reset, mergers tapped from the event box
//                                                                      model op 1310, oracle op 1320
//  D  direct scans sharing one chunk cache, with a reset pending       model op 1311, oracle op 1320
//  E  sliceChunks                                                      model op 1321
//  F  both mailbox slots occupied before the loop wakes up             model op 1312
//  G  runtime: concurrent pusher(s), random Reset timing; every tapped merger must be the sequential
//     filter of one of the posted requests (thorough tier: the same under the race detector)
//  J/K/L  several pushers at once (goroutines, the real directory walker, the real fzf walking a tree): c13load.go

import (
	"bytes"
	"encoding/json"
	"fmt"
	"os"
	"os/exec"
	"path/filepath"
	"sort"
	"strings"
	"sync"
	"sync/atomic"
	"time"

	fzf "github.com/junegunn/fzf/src"
	"github.com/junegunn/fzf/src/util"
)

// ---------------------------------------------------------------- cases

type c13ClOp struct {
	T int `json:"t"`           // 0 push N lines, 1 rejected push, 2 clear, 3 snapshot with tail N
	N int `json:"n,omitempty"` //
}

type c13CacheOp struct {
	T     int    `json:"t"` // 0 add, 1 lookup, 2 search, 3 retire, 4 clear
	Chunk int    `json:"c"`
	Key   string `json:"k,omitempty"`
	Len   int    `json:"len,omitempty"` // add: number of results
}

type c13PMOp struct {
	T   int    `json:"t"` // 0 match pattern P on chunk C | 1 Invalidate | 2 build the next pattern from (Q, Nth)
	P   int    `json:"p,omitempty"`
	C   int    `json:"c,omitempty"`
	Q   string `json:"q,omitempty"`
	Nth int    `json:"nth,omitempty"`
}

type c13Step struct {
	K      string `json:"k"` // edit | sort | push | reload | tail | bump | same
	Query  string `json:"q"` // the query of the request issued after this step
	NLines int    `json:"nlines,omitempty"`
	Seed   uint64 `json:"seed,omitempty"`
	Tail   int    `json:"tail,omitempty"`
	Final  bool   `json:"final"`
	Cancel bool   `json:"cancel"` // loop mode: posted as reqReset; scans mode: a reqReset is pending when scan starts
}

type c13Case struct {
	Kind     string       `json:"kind"` // chunklist | cache | loop | scans | twoslot | stress
	ClOps    []c13ClOp    `json:"clops,omitempty"`
	Counts   []int        `json:"counts,omitempty"` // cache: chunk.count of each chunk
	CacheOps []c13CacheOp `json:"cacheops,omitempty"`
	Fuzzy    bool         `json:"fuzzy,omitempty"`
	Extended bool         `json:"extended,omitempty"`
	Case     int          `json:"case,omitempty"`
	Tac      bool         `json:"tac,omitempty"`
	Sort     bool         `json:"sort,omitempty"`
	Parts    int          `json:"parts,omitempty"`
	Steps    []c13Step    `json:"steps,omitempty"`
	PMOps    []c13PMOp    `json:"pmops,omitempty"`
	NLines   int          `json:"nlines,omitempty"`
	Seed     uint64       `json:"seed,omitempty"` // stress / twoslot / pmatch
	Iters    int          `json:"iters,omitempty"`
	TextMem  *c13TextCase `json:"textmem,omitempty"` // kind textmem (c13display.go)
	Disp     *c13DispCase `json:"disp,omitempty"`    // kind display (c13display.go)
	Load     *c13LoadCase `json:"load,omitempty"`    // kinds pushers | walk | walksession (c13load.go)
	Pushers  int          `json:"npushers,omitempty"` // stress: the lines are pushed by this many goroutines (0 = one)
	Rel      *c13RelCase  `json:"rel,omitempty"`      // kind reload (c13reload.go)
}

var c13Once sync.Once
var c13CntMu sync.Mutex

func c13Inc(p *int, n int) { c13CntMu.Lock(); *p += n; c13CntMu.Unlock() }

func c13Init() { c13Once.Do(fzf.VerifInitSearchEnv) }

// lines: a few short words over common letters; rare letters so that some terms match <= 20 lines of a full chunk
func c13GenLines(seed uint64, n int) []string {
	r := NewRNG(seed ^ 0x5eed)
	out := make([]string, n)
	common := "abcde"
	for i := range out {
		var b strings.Builder
		words := r.Range(1, 3)
		for w := 0; w < words; w++ {
			if w > 0 {
				b.WriteByte(' ')
			}
			l := r.Range(1, 5)
			for k := 0; k < l; k++ {
				b.WriteByte(common[r.Intn(len(common))])
			}
			if r.Chance(12, 100) {
				b.WriteByte('x')
			}
			if r.Chance(9, 100) {
				b.WriteByte('y')
			}
			if r.Chance(6, 100) {
				b.WriteByte('z')
			}
			if r.Chance(4, 100) {
				b.WriteByte('X')
			}
			if r.Chance(3, 100) {
				b.WriteString("é")
			}
		}
		out[i] = b.String()
	}
	return out
}

// ---------------------------------------------------------------- A: chunk list

func c13Cells(chunks []*fzf.Chunk) ([][]int, bool) {
	ok := true
	out := make([][]int, len(chunks))
	for i, ch := range chunks {
		n := fzf.VerifCellCount(ch)
		out[i] = make([]int, 0, n)
		for k := 0; k < n && k < 100; k++ {
			it := fzf.VerifCellItem(ch, k)
			ix := int(fzf.VerifItemIndex(it))
			out[i] = append(out[i], ix)
			if fzf.VerifItemText(it) != fmt.Sprintf("i%d", ix) {
				ok = false
			}
		}
	}
	return out, ok
}

func c13CellsVal(cs [][]int) Val {
	vs := make([]Val, len(cs))
	for i, c := range cs {
		vs[i] = Ints(c)
	}
	return L(vs...)
}

func c13Flat(cs [][]int) []int {
	out := []int{}
	for _, c := range cs {
		out = append(out, c...)
	}
	return out
}

func c13ChunkList(c *Ctx, cs c13Case) {
	rep := c.Rep
	key, _ := json.Marshal(cs)
	var pan string
	type snapRec struct {
		chunks  []*fzf.Chunk
		count   int
		changed bool
		atTime  [][]int
		textOK  bool
		tail    int
	}
	var snaps []snapRec
	var finalCells [][]int
	var mops, lops []Val
	func() {
		defer func() {
			if r := recover(); r != nil {
				pan = fmt.Sprint(r)
			}
		}()
		cache := fzf.NewChunkCache()
		var next int32
		cl := fzf.NewChunkList(cache, fzf.VerifItemBuilder(&next))
		for _, o := range cs.ClOps {
			switch o.T {
			case 0:
				for k := 0; k < o.N; k++ {
					ix := int(next)
					cl.Push([]byte(fmt.Sprintf("i%d", ix)))
					mops = append(mops, L(I(0), I(ix)))
				}
			case 1:
				cl.Push([]byte("!rejected"))
				mops = append(mops, L(I(1)))
			case 2:
				cl.Clear()
				mops = append(mops, L(I(2)))
			case 3:
				s, cnt, chg := cl.Snapshot(o.N)
				cells, ok := c13Cells(s)
				snaps = append(snaps, snapRec{s, cnt, chg, cells, ok, o.N})
				mops = append(mops, L(I(3), I(o.N)))
			}
		}
		finalCells, _ = c13Cells(fzf.VerifListChunks(cl))
	}()
	lops = mops
	c13Inc(&rep.ImplTraces, 1)
	rep.Eval(string(key), len(snaps) > 1)
	if pan != "" {
		rep.Disagreement(Disagreement{Kind: "spec", Name: "no_crash", Input: cs, Impl: pan, Expect: "no panic"})
		return
	}
	// spec on the implementation's own observations
	want := c.Model.Call(1302, L(lops...))
	implSnaps := []Val{}
	for i, s := range snaps {
		atEnd, ok2 := c13Cells(s.chunks)
		c13Inc(&rep.SpecChecks, 1)
		if !c13CellsVal(atEnd).Equal(c13CellsVal(s.atTime)) || !ok2 || !s.textOK {
			rep.Disagreement(Disagreement{Kind: "spec", Name: "snapshot_immutable", Input: cs,
				Impl: fmt.Sprintf("snapshot #%d read at the end: %v", i, c13CellsVal(atEnd)), Expect: c13CellsVal(s.atTime).String()})
		}
		total := len(c13Flat(s.atTime))
		if s.count != total || fzf.CountItems(s.chunks) != total {
			rep.Disagreement(Disagreement{Kind: "spec", Name: "counts_consistent", Input: cs,
				Impl: fmt.Sprintf("snapshot #%d count=%d CountItems=%d", i, s.count, fzf.CountItems(s.chunks)), Expect: fmt.Sprint(total)})
		}
		if i < len(want.L) && !Ints(c13Flat(s.atTime)).Equal(want.L[i]) {
			rep.Disagreement(Disagreement{Kind: "spec", Name: "snapshot_is_live_prefix", Input: cs,
				Impl: fmt.Sprintf("snapshot #%d: %v", i, c13Flat(s.atTime)), Expect: want.L[i].String()})
		}
		implSnaps = append(implSnaps, L(I(s.count), B(s.changed), c13CellsVal(s.atTime), c13CellsVal(atEnd)))
		if s.tail > 0 {
			rep.Count("snapshot:tail")
		} else {
			rep.Count("snapshot:plain")
		}
		if s.changed {
			rep.Count("snapshot:trimmed")
		}
	}
	impl := L(L(implSnaps...), c13CellsVal(finalCells))
	mv := c.Model.Call(1301, L(mops...))
	if !mv.Equal(impl) {
		rep.Disagreement(Disagreement{Kind: "corr", Name: "corr:C13.chunklist", Input: cs, Impl: impl.String(), Expect: mv.String()})
	}
	rep.Sample(cs)
}

func c13GenChunkList(r *RNG) c13Case {
	cs := c13Case{Kind: "chunklist"}
	sizes := []int{0, 1, 2, 49, 50, 51, 99, 100, 101, 150, 199, 200, 201, 230}
	tails := []int{0, 0, 0, 1, 2, 49, 50, 51, 99, 100, 101, 150, 200, 201, 300}
	n := r.Range(2, 9)
	tailMode := r.Chance(1, 2)
	for i := 0; i < n; i++ {
		switch k := r.Intn(10); {
		case k < 5:
			cs.ClOps = append(cs.ClOps, c13ClOp{T: 0, N: Pick(r, sizes)})
		case k < 6:
			cs.ClOps = append(cs.ClOps, c13ClOp{T: 1})
		case k < 7 && r.Chance(1, 3):
			cs.ClOps = append(cs.ClOps, c13ClOp{T: 2})
		default:
			t := 0
			if tailMode {
				t = Pick(r, tails)
			}
			cs.ClOps = append(cs.ClOps, c13ClOp{T: 3, N: t})
		}
	}
	cs.ClOps = append(cs.ClOps, c13ClOp{T: 0, N: Pick(r, []int{1, 3, 100, 120})})
	return cs
}

// ---------------------------------------------------------------- B: chunk cache

func c13Cache(c *Ctx, cs c13Case) {
	rep := c.Rep
	key, _ := json.Marshal(cs)
	cache := fzf.NewChunkCache()
	chunks := make([]*fzf.Chunk, len(cs.Counts))
	for i, n := range cs.Counts {
		chunks[i] = fzf.VerifMakeChunk(n, int32(1000*i))
	}
	opt := func(rs []fzf.Result) Val {
		if rs == nil {
			return L()
		}
		xs := make([]int, len(rs))
		for i, x := range rs {
			xs[i] = int(fzf.VerifResultIndex(x))
		}
		return L(Ints(xs))
	}
	mops := []Val{}
	impl := []Val{}
	hits := 0
	for _, o := range cs.CacheOps {
		if o.Chunk < 0 || o.Chunk >= len(chunks) {
			continue
		}
		ch := chunks[o.Chunk]
		n := cs.Counts[o.Chunk]
		switch o.T {
		case 0:
			rs := make([]fzf.Result, 0, o.Len)
			xs := []int{}
			for k := 0; k < o.Len; k++ {
				item := fzf.VerifCellItem(ch, k%100)
				rs = append(rs, fzf.VerifMakeResult(item))
				xs = append(xs, int(fzf.VerifItemIndex(item)))
			}
			cache.Add(ch, o.Key, rs)
			mops = append(mops, L(I(0), I(o.Chunk), I(n), Bytes(o.Key), Ints(xs)))
		case 1:
			v := opt(cache.Lookup(ch, o.Key))
			hits += len(v.L)
			impl = append(impl, v)
			mops = append(mops, L(I(1), I(o.Chunk), I(n), Bytes(o.Key)))
		case 2:
			v := opt(cache.Search(ch, o.Key))
			hits += len(v.L)
			impl = append(impl, v)
			mops = append(mops, L(I(2), I(o.Chunk), I(n), Bytes(o.Key)))
		case 3:
			fzf.VerifRetire(cache, ch)
			mops = append(mops, L(I(3), L(I(o.Chunk))))
		default:
			cache.Clear()
			mops = append(mops, L(I(4)))
		}
	}
	c13Inc(&rep.ImplTraces, 1)
	rep.Eval(string(key), hits > 0)
	rep.CountN("cache:hits", hits)
	mv := c.Model.Call(1303, L(mops...))
	if !mv.Equal(L(impl...)) {
		rep.Disagreement(Disagreement{Kind: "corr", Name: "corr:C13.chunkcache", Input: cs, Impl: L(impl...).String(), Expect: mv.String()})
	}
}

func c13GenCache(r *RNG) c13Case {
	cs := c13Case{Kind: "cache", Counts: []int{100, 100, 99, Pick(r, []int{0, 1, 100})}}
	keyOf := func() string {
		n := Pick(r, []int{0, 1, 1, 2, 2, 3, 3, 4, 5})
		b := make([]byte, n)
		for i := range b {
			b[i] = "aab\t"[r.Intn(4)]
		}
		return string(b)
	}
	n := r.Range(4, 30)
	for i := 0; i < n; i++ {
		o := c13CacheOp{Chunk: r.Intn(4), Key: keyOf()}
		switch k := r.Intn(20); {
		case k < 8:
			o.T = 0
			o.Len = Pick(r, []int{0, 1, 5, 19, 20, 21, 40})
		case k < 12:
			o.T = 1
		case k < 18:
			o.T = 2
		case k < 19:
			o.T = 3
		default:
			o.T = 4
		}
		cs.CacheOps = append(cs.CacheOps, o)
	}
	return cs
}

// ---------------------------------------------------------------- C/D: matcher request sequences

type c13Req struct {
	chunks []*fzf.Chunk
	cells  [][]int
	pat    *fzf.Pattern
	final  bool
	sort   bool
	major  int
	minor  int
	cancel bool
}

type c13Env struct {
	cs     c13Case
	cache  *fzf.ChunkCache
	pcache map[string]*fzf.Pattern
	cl     *fzf.ChunkList
	next   int32
	major  int
	minor  int
	sort   bool
	snap   []*fzf.Chunk
	reqs   []c13Req
	items  map[int]*fzf.Item
	pats   []*fzf.Pattern
	patIx  map[*fzf.Pattern]int
	ids    map[*fzf.Chunk]int
	ctab   []Val
	slab   *util.Slab
	nth    int
}

func newC13Env(cs c13Case) *c13Env {
	e := &c13Env{cs: cs, cache: fzf.NewChunkCache(), pcache: map[string]*fzf.Pattern{}, sort: cs.Sort,
		items: map[int]*fzf.Item{}, patIx: map[*fzf.Pattern]int{}, ids: map[*fzf.Chunk]int{}, slab: util.MakeSlab(100*1024, 2048)}
	e.cl = fzf.NewChunkList(e.cache, fzf.VerifItemBuilder(&e.next))
	return e
}

func (e *c13Env) builder(runes []rune) *fzf.Pattern {
	return fzf.VerifBuildSearchPattern(e.cache, e.pcache, e.cs.Fuzzy, e.cs.Extended, fzf.Case(e.cs.Case), true, true, false, true,
		e.nth, e.major, e.minor, runes)
}

// apply a step's state change (what the coordinator in core.go does before calling Reset)
func (e *c13Env) apply(s c13Step) {
	push := func() {
		for _, l := range c13GenLines(s.Seed, s.NLines) {
			e.cl.Push([]byte(l))
		}
	}
	switch s.K {
	case "sort":
		e.sort = !e.sort
	case "push":
		push()
		e.snap, _, _ = e.cl.Snapshot(0)
	case "reload":
		e.cl.Clear()
		e.major++
		e.minor = 0
		push()
		e.snap, _, _ = e.cl.Snapshot(0)
	case "tail":
		push()
		var changed bool
		e.snap, _, changed = e.cl.Snapshot(s.Tail)
		if changed {
			e.minor++
		}
	case "bump":
		e.pcache = map[string]*fzf.Pattern{}
		e.cache.Invalidate()
		e.minor++
	}
}

func (e *c13Env) cellsOf(chunks []*fzf.Chunk) [][]int {
	out := make([][]int, len(chunks))
	for i, ch := range chunks {
		n := fzf.VerifCellCount(ch)
		out[i] = make([]int, 0, n)
		for k := 0; k < n && k < 100; k++ {
			it := fzf.VerifCellItem(ch, k)
			ix := int(fzf.VerifItemIndex(it))
			out[i] = append(out[i], ix)
			e.items[ix] = it
		}
	}
	return out
}

func (e *c13Env) record(s c13Step, pat *fzf.Pattern) c13Req {
	rq := c13Req{chunks: e.snap, cells: e.cellsOf(e.snap), pat: pat, final: s.Final, sort: e.sort, major: e.major, minor: e.minor, cancel: s.Cancel}
	if _, ok := e.patIx[pat]; !ok {
		e.patIx[pat] = len(e.pats)
		e.pats = append(e.pats, pat)
	}
	for i, ch := range rq.chunks {
		if _, ok := e.ids[ch]; !ok {
			e.ids[ch] = len(e.ids)
			e.ctab = append(e.ctab, L(I(e.ids[ch]), Ints(rq.cells[i])))
		}
	}
	e.reqs = append(e.reqs, rq)
	return rq
}

func (e *c13Env) patVal(p *fzf.Pattern) Val {
	text, ckey, cacheable, sortable, empty := fzf.VerifPatternInfo(p)
	idxs := make([]int, 0, len(e.items))
	for ix := range e.items {
		idxs = append(idxs, ix)
	}
	sort.Ints(idxs)
	tab := []Val{}
	for _, ix := range idxs {
		ok, key := fzf.VerifMatchItemKey(p, e.items[ix], e.slab)
		if ok {
			tab = append(tab, L(I(ix), I64(int64(key>>16))))
		}
	}
	return L(Bytes(text), Bytes(ckey), B(cacheable), B(sortable), B(empty), L(tab...), I(fzf.VerifPatternGen(p)))
}

func (e *c13Env) reqVal(rq c13Req) Val {
	ids := make([]int, len(rq.chunks))
	for i, ch := range rq.chunks {
		ids[i] = e.ids[ch]
	}
	return L(Ints(ids), I(e.patIx[rq.pat]), B(rq.final), B(rq.sort), I(rq.major), I(rq.minor))
}

func c13MergerView(mg *fzf.Merger) []int {
	out := make([]int, mg.Length())
	for i := range out {
		out[i] = int(fzf.VerifResultIndex(mg.Get(i)))
	}
	return out
}

// Go re-statement of the oracle (used where thousands of items make the model call too slow; tied to op 1320 in C/D)
func c13GoOracle(p *fzf.Pattern, items []*fzf.Item, sortFlag bool, tac bool, slab *util.Slab) []int {
	_, _, _, sortable, empty := fzf.VerifPatternInfo(p)
	type rk struct {
		ix  int
		key uint64
	}
	ms := []rk{}
	for _, it := range items {
		if empty {
			ms = append(ms, rk{int(fzf.VerifItemIndex(it)), 0})
			continue
		}
		if ok, key := fzf.VerifMatchItemKey(p, it, slab); ok {
			ms = append(ms, rk{int(fzf.VerifItemIndex(it)), key})
		}
	}
	if !empty && sortFlag && sortable {
		sort.SliceStable(ms, func(i, j int) bool {
			if ms[i].key != ms[j].key {
				return ms[i].key < ms[j].key
			}
			if tac {
				return ms[i].ix > ms[j].ix
			}
			return ms[i].ix < ms[j].ix
		})
	} else if tac {
		for i, j := 0, len(ms)-1; i < j; i, j = i+1, j-1 {
			ms[i], ms[j] = ms[j], ms[i]
		}
	}
	out := make([]int, len(ms))
	for i, m := range ms {
		out[i] = m.ix
	}
	return out
}

type c13FinTap struct {
	eb   *util.EventBox
	fin  chan *fzf.Merger
	done chan struct{}
}

func newC13FinTap(eb *util.EventBox) *c13FinTap {
	t := &c13FinTap{eb: eb, fin: make(chan *fzf.Merger, 4096), done: make(chan struct{})}
	go func() {
		defer close(t.done)
		for {
			stop := false
			eb.Wait(func(ev *util.Events) {
				for typ, v := range *ev {
					switch typ {
					case fzf.EvtSearchFin:
						if mg, ok := v.(*fzf.Merger); ok {
							select {
							case t.fin <- mg:
							default:
							}
						}
					case fzf.EvtQuit:
						stop = true
					}
				}
				ev.Clear()
			})
			if stop {
				return
			}
		}
	}()
	return t
}
func (t *c13FinTap) wait(d time.Duration) *fzf.Merger {
	select {
	case mg := <-t.fin:
		return mg
	case <-time.After(d):
		return nil
	}
}
func (t *c13FinTap) close() { t.eb.Set(fzf.EvtQuit, nil); <-t.done }

var c13Hung atomic.Bool

func c13Matcher(c *Ctx, cs c13Case) {
	c13Init()
	if c13Hung.Load() && c.Replay == "" {
		return // a search already hung in this run: reported once, do not wait for every other case
	}
	rep := c.Rep
	key, _ := json.Marshal(cs)
	e := newC13Env(cs)
	eb := util.NewEventBox()
	parts := cs.Parts
	m := fzf.VerifNewMatcher(e.cache, e.builder, cs.Sort, cs.Tac, eb, 0, 0, parts)
	loopMode := cs.Kind == "loop"
	var tap *c13FinTap
	if loopMode {
		tap = newC13FinTap(eb)
		go m.Loop()
	}
	type pub struct {
		ok    bool
		final bool
		count int
		view  []int
	}
	pubs := []pub{}
	var pan string
	func() {
		defer func() {
			if r := recover(); r != nil {
				pan = fmt.Sprint(r)
			}
		}()
		for _, s := range cs.Steps {
			e.apply(s)
			pat := e.builder([]rune(s.Query))
			rq := e.record(s, pat)
			if loopMode {
				m.VerifReset(rq.chunks, []rune(s.Query), s.Cancel, s.Final, rq.sort, rq.major, rq.minor)
				mg := tap.wait(10 * time.Second)
				if mg == nil {
					c13Hung.Store(true)
					panic(fmt.Sprintf("hang: Loop published nothing within 10 s for request #%d", len(pubs)))
				} else {
					pubs = append(pubs, pub{true, fzf.VerifMergerFinal(mg), mg.Length(), c13MergerView(mg)})
				}
			} else {
				if s.Cancel {
					m.VerifPostReset()
				}
				type scanRes struct {
					mg        *fzf.Merger
					cancelled bool
				}
				done := make(chan scanRes, 1)
				go func() {
					mg, ca := m.VerifScan(rq.chunks, pat, s.Final, rq.sort, rq.major, rq.minor)
					done <- scanRes{mg, ca}
				}()
				var mg *fzf.Merger
				var cancelled bool
				select {
				case r := <-done:
					mg, cancelled = r.mg, r.cancelled
				case <-time.After(8 * time.Second):
					c13Hung.Store(true)
					panic(fmt.Sprintf("hang: scan #%d did not return within 8 s", len(pubs)))
				}
				if s.Cancel {
					m.VerifDrainBox()
				}
				if cancelled {
					if mg != nil {
						panic("cancelled scan returned a merger")
					}
					pubs = append(pubs, pub{})
				} else {
					pubs = append(pubs, pub{true, false, mg.Length(), c13MergerView(mg)})
				}
			}
		}
	}()
	if loopMode {
		m.Stop()
		tap.close()
	}
	c13Inc(&rep.ImplTraces, 1)
	if pan != "" {
		name := "no_crash"
		if strings.HasPrefix(pan, "hang:") {
			name = "search_terminates"
		}
		rep.Disagreement(Disagreement{Kind: "spec", Name: name, Input: cs, Impl: pan, Expect: "every uninterrupted request is answered with a merger"})
		return
	}
	// the requests' snapshots must still read the same (they were read when the request was made)
	for i, rq := range e.reqs {
		now := e.cellsOf(rq.chunks)
		if !c13CellsVal(now).Equal(c13CellsVal(rq.cells)) {
			rep.Disagreement(Disagreement{Kind: "spec", Name: "snapshot_immutable", Input: cs,
				Impl: fmt.Sprintf("request #%d snapshot changed after later pushes", i), Expect: "unchanged"})
			return
		}
	}
	pats := make([]Val, len(e.pats))
	for i, p := range e.pats {
		pats[i] = e.patVal(p)
	}
	cfg := L(B(cs.Sort), B(cs.Tac), I(m.VerifPartitions()), I(0), I(0), I(7))
	its := []Val{}
	nontrivial := false
	cachedTerms := 0
	for i, rq := range e.reqs {
		if cs.Steps[i].K == "bump" {
			its = append(its, L(L(), I(2)))
		}
		its = append(its, L(e.reqVal(rq), B(rq.cancel)))
		// spec: the sequential oracle on the request's own snapshot
		p := pubs[i]
		c13Inc(&rep.SpecChecks, 1)
		items := c13Flat(rq.cells)
		want := c.Model.Call(1320, L(B(rq.sort), B(cs.Tac), pats[e.patIx[rq.pat]], Ints(items)))
		itemPtrs := make([]*fzf.Item, len(items))
		for k, ix := range items {
			itemPtrs[k] = e.items[ix]
		}
		if g := c13GoOracle(rq.pat, itemPtrs, rq.sort, cs.Tac, e.slab); !Ints(g).Equal(want) {
			rep.Disagreement(Disagreement{Kind: "corr", Name: "corr:C13.oracle_restatement", Input: cs, Impl: Ints(g).String(), Expect: want.String()})
		}
		if n := len(want.L); n > 0 && n <= 20*len(rq.chunks) && n < len(items) {
			cachedTerms++
		}
		if p.ok {
			if !Ints(p.view).Equal(want) || p.count != len(want.L) {
				rep.Disagreement(Disagreement{Kind: "spec", Name: "publish_matches_request", Input: cs,
					Impl:   fmt.Sprintf("request #%d (query %q, %d items, rev %d.%d) published %d items: %v", i, cs.Steps[i].Query, len(items), rq.major, rq.minor, p.count, p.view),
					Expect: want.String()})
			}
			if loopMode && p.final != rq.final {
				rep.Disagreement(Disagreement{Kind: "spec", Name: "publish_final_flag", Input: cs,
					Impl: fmt.Sprintf("request #%d final=%v, merger final=%v", i, rq.final, p.final), Expect: "equal"})
			}
			if len(want.L) > 0 && len(want.L) < len(items) {
				nontrivial = true
			}
		} else if loopMode {
			rep.Disagreement(Disagreement{Kind: "spec", Name: "loop_publishes_each_uninterrupted_request", Input: cs,
				Impl: fmt.Sprintf("request #%d: nothing published within 10 s", i), Expect: "a merger"})
		} else if !rq.cancel {
			rep.Disagreement(Disagreement{Kind: "spec", Name: "scan_all_or_nothing", Input: cs,
				Impl: fmt.Sprintf("scan #%d was cancelled although no reset was pending", i), Expect: "a complete merger"})
		} else {
			rep.Count("scan:cancelled")
		}
	}
	rep.Eval(string(key), nontrivial)
	rep.CountN("requests", len(e.reqs))
	rep.CountN("requests:narrow(<=20/chunk)", cachedTerms)
	rep.Count(fmt.Sprintf("%s:partitions=%d", cs.Kind, m.VerifPartitions()))
	for _, s := range cs.Steps {
		rep.Count("step:" + s.K)
	}
	// correspondence with the extracted model
	op := 1310
	if !loopMode {
		op = 1311
	}
	mv := c.Model.Call(op, L(cfg, L(pats...), L(e.ctab...), L(its...)))
	impl := make([]Val, len(pubs))
	for i, p := range pubs {
		if p.ok {
			impl[i] = L(B(p.final), I(p.count), Ints(p.view))
		} else {
			impl[i] = L()
		}
	}
	if !mv.Equal(L(impl...)) {
		first := -1
		for i := range impl {
			if i >= len(mv.L) || !mv.L[i].Equal(impl[i]) {
				first = i
				break
			}
		}
		rep.Disagreement(Disagreement{Kind: "corr", Name: "corr:C13." + cs.Kind, Input: cs,
			Impl: fmt.Sprintf("first difference at request #%d: %v", first, L(impl...)), Expect: mv.String()})
	}
	if len(cs.Steps) <= 6 {
		rep.Sample(cs)
	}
}

var c13Alphabet = []rune("aabcxxyzXq '!^$|é")

var c13Tokens = []string{"!y", "y", "| z", "'x", "^a", "x$", "!x", "z", "!'y", "X"}

func c13EditQuery(r *RNG, q []rune) []rune {
	// token-level edits: add or drop a whole term (inverse, or-group, exact, anchored), at either end
	if r.Chance(1, 4) {
		toks := strings.Fields(string(q))
		switch k := r.Intn(4); {
		case k == 0 && len(toks) > 0:
			toks = toks[:len(toks)-1]
		case k == 1 && len(toks) > 0:
			toks = toks[1:]
		case k == 2:
			toks = append([]string{Pick(r, c13Tokens)}, toks...)
		default:
			toks = append(toks, Pick(r, c13Tokens))
		}
		return []rune(strings.Join(toks, " "))
	}
	switch k := r.Intn(10); {
	case k < 3 || len(q) == 0: // insert at the end
		return append(append([]rune{}, q...), Pick(r, c13Alphabet))
	case k < 5: // insert at the front
		return append([]rune{Pick(r, c13Alphabet)}, q...)
	case k < 6: // insert in the middle
		i := r.Intn(len(q) + 1)
		out := append([]rune{}, q[:i]...)
		out = append(out, Pick(r, c13Alphabet))
		return append(out, q[i:]...)
	case k < 8: // delete at the end
		return append([]rune{}, q[:len(q)-1]...)
	default: // delete at the front
		return append([]rune{}, q[1:]...)
	}
}

func c13GenMatcher(r *RNG, kind string) c13Case {
	cs := c13Case{Kind: kind, Fuzzy: r.Chance(4, 5), Extended: r.Chance(5, 6), Case: Pick(r, []int{0, 0, 0, 1, 2}),
		Tac: r.Chance(1, 4), Sort: r.Chance(4, 5), Parts: Pick(r, []int{1, 2, 3, 3, 4, 5, 7, 8, 32})}
	counts := []int{40, 100, 150, 200, 230, 300}
	q := []rune{}
	if r.Bool() {
		q = []rune{Pick(r, []rune("xyzX"))}
	}
	total := 0
	lines := func(n int) (int, uint64) { return n, r.Next() }
	first := Pick(r, counts)
	n0, s0 := lines(first)
	total = first
	cs.Steps = append(cs.Steps, c13Step{K: "push", Query: string(q), NLines: n0, Seed: s0, Final: r.Bool(), Cancel: r.Bool()})
	scenario := r.Intn(4) // 0: counts return after a reload (F6 shape); others: free mix
	n := r.Range(4, 12)
	for i := 0; i < n; i++ {
		st := c13Step{K: "edit", Final: r.Chance(2, 3), Cancel: r.Bool()}
		k := r.Intn(20)
		if scenario == 0 && i == 1 {
			k = 15
		}
		if scenario == 0 && i == 2 {
			k = 13
		}
		switch {
		case k < 9:
			q = c13EditQuery(r, q)
		case k < 11:
			st.K = "same"
		case k < 12:
			st.K = "sort"
		case k < 15: // push up to one of the round counts, so that earlier counts come back
			target := Pick(r, counts)
			if scenario == 0 && i == 2 {
				target = first
			}
			if target <= total {
				target = total + Pick(r, []int{1, 7, 100})
			}
			if target > 620 {
				st.K = "same"
				break
			}
			st.K = "push"
			st.NLines, st.Seed = lines(target - total)
			total = target
		case k < 17:
			st.K = "reload"
			total = Pick(r, counts[:4])
			if scenario == 0 && i == 1 && total >= first {
				total = first / 2
			}
			st.NLines, st.Seed = lines(total)
		case k < 18:
			st.K = "bump"
		default:
			st.K = "tail"
			st.Tail = Pick(r, []int{50, 100, 150, 199, 250})
			st.NLines, st.Seed = lines(Pick(r, []int{0, 0, 30, 100}))
			total += st.NLines
			if total > st.Tail {
				total = st.Tail
			}
		}
		st.Query = string(q)
		cs.Steps = append(cs.Steps, st)
	}
	return cs
}

// ---------------------------------------------------------------- Pattern.Match against the chunk cache, with Invalidate

func c13PMatch(c *Ctx, cs c13Case) {
	c13Init()
	rep := c.Rep
	key, _ := json.Marshal(cs)
	e := newC13Env(cs)
	for _, l := range c13GenLines(cs.Seed, cs.NLines) {
		e.cl.Push([]byte(l))
	}
	chunks, _, _ := e.cl.Snapshot(0)
	cells := e.cellsOf(chunks)
	ctab := make([]Val, len(chunks))
	for i := range chunks {
		ctab[i] = L(I(i), Ints(cells[i]))
	}
	pats := []*fzf.Pattern{}
	mops := []Val{}
	impl := []Val{}
	type mrec struct{ p, c int }
	matches := []mrec{}
	hits := 0
	for _, o := range cs.PMOps {
		switch o.T {
		case 0:
			if o.P >= len(pats) || o.C >= len(chunks) {
				continue
			}
			rs := fzf.VerifPatternMatchChunk(pats[o.P], chunks[o.C], e.slab)
			xs := make([]int, len(rs))
			for i, r := range rs {
				xs[i] = int(fzf.VerifResultIndex(r))
			}
			impl = append(impl, Ints(xs))
			matches = append(matches, mrec{o.P, o.C})
			mops = append(mops, L(I(0), I(o.P), I(o.C)))
		case 1:
			e.cache.Invalidate()
			mops = append(mops, L(I(1)))
		case 2:
			e.nth = o.Nth
			e.minor++ // a new --nth is a new revision (tokens cached in the items are per revision)
			e.pcache = map[string]*fzf.Pattern{}
			pats = append(pats, e.builder([]rune(o.Q)))
		}
	}
	c13Inc(&rep.ImplTraces, 1)
	pv := make([]Val, len(pats))
	for i, p := range pats {
		pv[i] = e.patVal(p)
	}
	// spec: every Match equals the uncached filter of that chunk with that pattern
	for i, mr := range matches {
		c13Inc(&rep.SpecChecks, 1)
		want := []int{}
		for _, ix := range cells[mr.c] {
			if ok, _ := fzf.VerifMatchItemKey(pats[mr.p], e.items[ix], e.slab); ok {
				want = append(want, ix)
			}
		}
		if n := len(want); n > 0 && n <= 20 && len(cells[mr.c]) == 100 {
			hits++
		}
		if !Ints(want).Equal(impl[i]) {
			rep.Disagreement(Disagreement{Kind: "spec", Name: "match_equals_uncached_filter", Input: cs,
				Impl: fmt.Sprintf("match #%d (pattern #%d on chunk #%d): %v", i, mr.p, mr.c, impl[i]), Expect: Ints(want).String()})
			break
		}
	}
	rep.Eval(string(key), hits > 1)
	rep.CountN("pmatch:matches", len(matches))
	rep.CountN("pmatch:cacheable_results", hits)
	mv := c.Model.Call(1313, L(L(pv...), L(ctab...), L(mops...), I(7)))
	if !mv.Equal(L(impl...)) {
		rep.Disagreement(Disagreement{Kind: "corr", Name: "corr:C13.pattern_match", Input: cs, Impl: L(impl...).String(), Expect: mv.String()})
	}
}

func c13GenPMatch(r *RNG) c13Case {
	cs := c13Case{Kind: "pmatch", Fuzzy: r.Chance(4, 5), Extended: r.Chance(5, 6), Seed: r.Next(), NLines: Pick(r, []int{100, 200, 250, 300})}
	nchunks := (cs.NLines + 99) / 100
	npat := 0
	phases := r.Range(1, 3)
	q := []rune{Pick(r, []rune("xyzX"))}
	for ph := 0; ph < phases; ph++ {
		nth := Pick(r, []int{0, 1, 2})
		first := npat
		k := r.Range(2, 4)
		for i := 0; i < k; i++ {
			cs.PMOps = append(cs.PMOps, c13PMOp{T: 2, Q: string(q), Nth: nth})
			npat++
			q = c13EditQuery(r, q)
			if len(q) == 0 {
				q = []rune{Pick(r, []rune("xyz"))}
			}
		}
		n := r.Range(3, 12)
		for i := 0; i < n; i++ {
			cs.PMOps = append(cs.PMOps, c13PMOp{T: 0, P: first + r.Intn(npat-first), C: r.Intn(nchunks)})
		}
		if ph < phases-1 || r.Bool() {
			cs.PMOps = append(cs.PMOps, c13PMOp{T: 1})
			// workers of the scan that was running finish their chunk with the stale patterns
			for i := r.Intn(4); i > 0; i-- {
				cs.PMOps = append(cs.PMOps, c13PMOp{T: 0, P: first + r.Intn(npat-first), C: r.Intn(nchunks)})
			}
		}
		if r.Bool() {
			q = []rune{Pick(r, []rune("xyzX"))} // the same short queries come back under another --nth
		}
	}
	return cs
}

// ---------------------------------------------------------------- E: sliceChunks

func c13Slices(c *Ctx) {
	eb := util.NewEventBox()
	cache := fzf.NewChunkCache()
	for parts := 1; parts <= 32; parts++ {
		m := fzf.VerifNewMatcher(cache, nil, true, false, eb, 0, 0, parts)
		for n := 0; n <= 70; n++ {
			chunks := make([]*fzf.Chunk, n)
			for i := range chunks {
				chunks[i] = &fzf.Chunk{}
			}
			sl := m.VerifSliceChunks(chunks)
			sizes := make([]int, len(sl))
			tot := 0
			for i, s := range sl {
				sizes[i] = len(s)
				tot += len(s)
			}
			c.Rep.Eval(fmt.Sprintf("slices %d %d", parts, n), n > parts)
			c13Inc(&c.Rep.SpecChecks, 1)
			if tot != n {
				c.Rep.Disagreement(Disagreement{Kind: "spec", Name: "partitions_cover_every_chunk", Input: map[string]int{"partitions": parts, "chunks": n},
					Impl: fmt.Sprint(sizes), Expect: fmt.Sprintf("sizes adding up to %d", n)})
			}
			if mv := c.Model.Call(1321, L(I(parts), I(n))); !mv.Equal(Ints(sizes)) {
				c.Rep.Disagreement(Disagreement{Kind: "corr", Name: "corr:C13.slice_chunks", Input: map[string]int{"partitions": parts, "chunks": n},
					Impl: fmt.Sprint(sizes), Expect: mv.String()})
			}
		}
	}
}

// ---------------------------------------------------------------- F: both mailbox slots occupied

func c13TwoSlot(c *Ctx, cs c13Case) {
	c13Init()
	rep := c.Rep
	if len(cs.Steps) != 2 {
		return
	}
	e := newC13Env(cs)
	eb := util.NewEventBox()
	m := fzf.VerifNewMatcher(e.cache, e.builder, cs.Sort, cs.Tac, eb, 0, 0, cs.Parts)
	tap := newC13FinTap(eb)
	var rqs [2]c13Req
	for i, s := range cs.Steps {
		e.apply(s)
		rqs[i] = e.record(s, e.builder([]rune(s.Query)))
	}
	// steps[0] is posted as reqRetry, steps[1] as reqReset; Seed bit 0 of the case says which is posted last
	retryLast := cs.Seed&1 == 1
	post := func(i int) {
		m.VerifReset(rqs[i].chunks, []rune(cs.Steps[i].Query), i == 1, cs.Steps[i].Final, rqs[i].sort, rqs[i].major, rqs[i].minor)
	}
	if retryLast {
		post(1)
		post(0)
	} else {
		post(0)
		post(1)
	}
	go m.Loop()
	mg := tap.wait(10 * time.Second)
	extra := tap.wait(3 * time.Millisecond)
	m.Stop()
	tap.close()
	c13Inc(&rep.ImplTraces, 1)
	key, _ := json.Marshal(cs)
	rep.Eval(string(key), true)
	if mg == nil {
		rep.Disagreement(Disagreement{Kind: "spec", Name: "loop_publishes_each_uninterrupted_request", Input: cs, Impl: "nothing published within 10 s", Expect: "a merger"})
		return
	}
	pats := make([]Val, len(e.pats))
	for i, p := range e.pats {
		pats[i] = e.patVal(p)
	}
	cfg := L(B(cs.Sort), B(cs.Tac), I(m.VerifPartitions()), I(0), I(0), I(7))
	mv := c.Model.Call(1312, L(cfg, L(pats...), L(e.ctab...), e.reqVal(rqs[0]), e.reqVal(rqs[1]), B(retryLast)))
	got := L(B(fzf.VerifMergerFinal(mg)), I(mg.Length()), Ints(c13MergerView(mg)))
	// spec: whatever is published is the filter of one of the two requests
	c13Inc(&rep.SpecChecks, 1)
	which := -1
	for i := 0; i < 2; i++ {
		want := c.Model.Call(1320, L(B(rqs[i].sort), B(cs.Tac), pats[e.patIx[rqs[i].pat]], Ints(c13Flat(rqs[i].cells))))
		if Ints(c13MergerView(mg)).Equal(want) && (which < 0 || i == 1) {
			which = i
		}
	}
	if which < 0 {
		rep.Disagreement(Disagreement{Kind: "spec", Name: "publish_matches_request", Input: cs, Impl: got.String(), Expect: "the filter of one of the two pending requests"})
		return
	}
	if len(mv.L) == 2 && !got.Equal(mv.L[0]) && !got.Equal(mv.L[1]) {
		rep.Disagreement(Disagreement{Kind: "corr", Name: "corr:C13.twoslot", Input: cs, Impl: got.String(), Expect: mv.String()})
	}
	if extra != nil {
		rep.Count("twoslot:second_publication")
	}
	newest := 1
	if retryLast {
		newest = 0
	}
	wantNewest := c.Model.Call(1320, L(B(rqs[newest].sort), B(cs.Tac), pats[e.patIx[rqs[newest].pat]], Ints(c13Flat(rqs[newest].cells))))
	c13Inc(&rep.SpecChecks, 1)
	if Ints(c13MergerView(mg)).Equal(wantNewest) && fzf.VerifMergerFinal(mg) == rqs[newest].final {
		rep.Count("twoslot:newest_request_won")
	} else {
		// the request posted LAST was dropped and the older one was published
		rep.Count("twoslot:older_request_won_newest_dropped")
		rep.Disagreement(Disagreement{Kind: "spec", Name: "last_request_wins", Input: cs,
			Impl: fmt.Sprintf("published the request posted first (%q): %v", cs.Steps[1-newest].Query, got), Expect: wantNewest.String()})
	}
}

func c13GenTwoSlot(r *RNG) c13Case {
	cs := c13Case{Kind: "twoslot", Fuzzy: true, Extended: true, Tac: r.Chance(1, 4), Sort: true, Parts: Pick(r, []int{1, 3, 32}), Seed: r.Next()}
	n, s := Pick(r, []int{40, 100, 150}), r.Next()
	cs.Steps = []c13Step{
		{K: "push", Query: Pick(r, []string{"a", "x", "ab", ""}), NLines: n, Seed: s, Final: false},
		{K: Pick(r, []string{"edit", "edit", "push"}), Query: Pick(r, []string{"b", "y", "xa", "c"}), NLines: 30, Seed: s + 1, Final: true, Cancel: true},
	}
	return cs
}

// ---------------------------------------------------------------- G: runtime stress

type c13StressResult struct {
	Mergers    int    `json:"mergers"`
	Requests   int    `json:"requests"`
	Unmatched  string `json:"unmatched,omitempty"`
	LastOK     bool   `json:"last_ok"`
	LastDetail string `json:"last_detail,omitempty"`
	Numbering  string `json:"numbering,omitempty"`
}

func c13StressOnce(cs c13Case) c13StressResult {
	c13Init()
	r := NewRNG(cs.Seed)
	e := newC13Env(cs)
	eb := util.NewEventBox()
	m := fzf.VerifNewMatcher(e.cache, e.builder, cs.Sort, cs.Tac, eb, 0, 0, cs.Parts)
	tap := newC13FinTap(eb)
	go m.Loop()
	total := Pick(r, []int{300, 1000, 2500})
	tail := 0
	if r.Chance(1, 4) {
		tail = Pick(r, []int{150, 400})
	}
	lines := c13GenLines(r.Next(), total)
	pr := r.Fork()
	var wg sync.WaitGroup
	pushers := cs.Pushers
	if pushers < 1 {
		pushers = 1
	}
	for p := 0; p < pushers; p++ { // the reader; the directory walker has several of them
		prp := pr
		if pushers > 1 {
			prp = pr.Fork()
		}
		part := lines[p*total/pushers : (p+1)*total/pushers]
		wg.Add(1)
		go func(part []string, pr *RNG) {
			defer wg.Done()
			for i, l := range part {
				e.cl.Push([]byte(l))
				if i%Pick(pr, []int{7, 31, 100}) == 0 {
					time.Sleep(time.Duration(pr.Intn(200)) * time.Microsecond)
				}
			}
		}(part, prp)
	}
	type sreq struct {
		chunks       []*fzf.Chunk
		pat          *fzf.Pattern
		sort         bool
		major, minor int
		oracle       []int
		done         bool
	}
	reqs := []*sreq{}
	mergers := []*fzf.Merger{}
	q := []rune{}
	sortFlag := cs.Sort
	minor := 0
	drain := func() {
		for {
			select {
			case mg := <-tap.fin:
				mergers = append(mergers, mg)
			default:
				return
			}
		}
	}
	post := func(cancel, final bool) *sreq {
		snap, _, changed := e.cl.Snapshot(tail)
		if changed {
			minor++
		}
		e.minor = minor
		pat := e.builder(q)
		rq := &sreq{chunks: snap, pat: pat, sort: sortFlag, major: 0, minor: minor}
		reqs = append(reqs, rq)
		m.VerifReset(snap, q, cancel, final, sortFlag, 0, minor)
		return rq
	}
	for i := 0; i < cs.Iters; i++ {
		if r.Chance(2, 3) {
			q = c13EditQuery(r, q)
		}
		if r.Chance(1, 15) {
			sortFlag = !sortFlag
		}
		post(r.Bool(), false)
		time.Sleep(time.Duration(r.Intn(1500)) * time.Microsecond)
		drain()
	}
	wg.Wait()
	time.Sleep(60 * time.Millisecond) // let the matcher take whatever is pending, so that only one slot is used below
	drain()
	last := post(true, true)
	res := c13StressResult{}
	slab := util.MakeSlab(100*1024, 2048)
	oracleOf := func(rq *sreq) []int {
		if !rq.done {
			items := []*fzf.Item{}
			for _, ch := range rq.chunks {
				for k := 0; k < fzf.VerifCellCount(ch); k++ {
					items = append(items, fzf.VerifCellItem(ch, k))
				}
			}
			rq.oracle = c13GoOracle(rq.pat, items, rq.sort, cs.Tac, slab)
			rq.done = true
		}
		return rq.oracle
	}
	same := func(a, b []int) bool {
		if len(a) != len(b) {
			return false
		}
		for i := range a {
			if a[i] != b[i] {
				return false
			}
		}
		return true
	}
	// the last request must eventually be published (nothing supersedes it)
	deadline := time.Now().Add(10 * time.Second)
	for time.Now().Before(deadline) {
		mg := tap.wait(100 * time.Millisecond)
		if mg != nil {
			mergers = append(mergers, mg)
			if fzf.VerifMergerFinal(mg) && same(c13MergerView(mg), oracleOf(last)) {
				res.LastOK = true
				break
			}
		}
	}
	if !res.LastOK {
		res.LastDetail = fmt.Sprintf("the last request (query %q, %d items expected) was not published within 10 s", string(q), len(oracleOf(last)))
	}
	m.Stop()
	tap.close()
	res.Mergers = len(mergers)
	res.Requests = len(reqs)
	for _, mg := range mergers {
		view := c13MergerView(mg)
		ma, mi := fzf.VerifMergerRevision(mg)
		found := false
		for k := len(reqs) - 1; k >= 0 && !found; k-- {
			rq := reqs[k]
			if rq.major != ma || rq.minor != mi {
				continue
			}
			if p := fzf.VerifMergerPattern(mg); p != nil && p != rq.pat {
				continue
			}
			found = same(view, oracleOf(rq))
		}
		if !found {
			res.Unmatched = fmt.Sprintf("a merger with %d items at revision %d.%d is not the sequential filter of any posted request", len(view), ma, mi)
			break
		}
	}
	// what the searches were started on: the i-th item of a snapshot has index first+i, whoever pushed it
	for k, rq := range reqs {
		idx, _, _ := c13ReadSnap(rq.chunks)
		if bad := c13Consecutive(idx); bad >= 0 {
			res.Numbering = fmt.Sprintf("the snapshot of request #%d (%d items): the item at position %d has index %d, its predecessor %d", k, len(idx), bad, idx[bad], idx[bad-1])
			break
		}
	}
	return res
}

func c13Stress(c *Ctx, cs c13Case) {
	res := c13StressOnce(cs)
	rep := c.Rep
	c13Inc(&rep.ImplTraces, 1)
	c13Inc(&rep.SpecChecks, res.Mergers)
	key, _ := json.Marshal(cs)
	rep.Eval(string(key), res.Mergers > 1)
	rep.CountN("stress:requests", res.Requests)
	rep.CountN("stress:mergers_checked", res.Mergers)
	if res.Unmatched != "" {
		rep.Disagreement(Disagreement{Kind: "spec", Name: "publish_matches_request(concurrent)", Input: cs, Impl: res.Unmatched, Expect: "filter+sort of the request's own snapshot"})
	}
	if res.Numbering != "" {
		rep.Disagreement(Disagreement{Kind: "spec", Name: "item_indexes_number_positions(concurrent)", Input: cs, Impl: res.Numbering, Expect: "every item's index is its predecessor's + 1"})
	}
	if cs.Pushers > 1 {
		rep.Count("stress:several_pushers")
	}
	if !res.LastOK {
		// liveness: retried twice before being reported (DESIGN 1.4)
		for i := 0; i < 2 && !res.LastOK; i++ {
			res = c13StressOnce(cs)
		}
		if !res.LastOK {
			rep.Disagreement(Disagreement{Kind: "spec", Name: "last_request_published(concurrent)", Input: cs, Impl: res.LastDetail, Expect: "published"})
		}
	}
}

func c13GenStress(r *RNG, iters int) c13Case {
	return c13Case{Kind: "stress", Fuzzy: true, Extended: true, Tac: r.Chance(1, 4), Sort: r.Chance(4, 5),
		Parts: Pick(r, []int{1, 2, 3, 5, 8, 32}), Seed: r.Next(), Iters: iters, Pushers: Pick(r, []int{1, 1, 2, 4, 8})}
}

// the same stress under the race detector: a separate -race build of this harness, run as a child
func c13RaceChild(c *Ctx) {
	root := filepath.Dir(filepath.Dir(c.Corpus))
	hdir := filepath.Join(root, "harness")
	bin := filepath.Join(c.Work, "harness_race")
	env := append(os.Environ(), "CGO_ENABLED=1", "GOFLAGS=-mod=mod", "GOPROXY=off", "GOSUMDB=off", "GOTOOLCHAIN=local")
	cmd := exec.Command("go", "build", "-race", "-tags", "verif", "-o", bin, "./cmd/harness")
	cmd.Dir = hdir
	cmd.Env = env
	if out, err := cmd.CombinedOutput(); err != nil {
		c.Rep.Extra["race_detector"] = "unavailable: " + strings.TrimSpace(string(out))
		c.Rep.Count("race:unavailable")
		return
	}
	outf := filepath.Join(c.Work, "race_child.json")
	child := exec.Command(bin, "-prop", "C13", "-tier", c.Tier, "-seed", fmt.Sprint(c.Seed), "-out", outf, "-scale", fmt.Sprint(c.Scale),
		"-work", filepath.Join(c.Work, "racechild"))
	child.Env = append(env, "VERIF_C13_CHILD=1", "GORACE=halt_on_error=0 exitcode=66")
	var buf bytes.Buffer
	child.Stdout = &buf
	child.Stderr = &buf
	err := child.Run()
	log := buf.String()
	races := strings.Count(log, "WARNING: DATA RACE")
	c.Rep.Extra["race_detector"] = fmt.Sprintf("go build -race ok; child exit=%v; race reports=%d", err, races)
	c.Rep.CountN("race:reports", races)
	var crep Report
	if b, e := os.ReadFile(outf); e == nil && json.Unmarshal(b, &crep) == nil {
		c.Rep.CountN("race:child_stress_runs", crep.ImplTraces)
		c.Rep.CountN("race:child_mergers_checked", crep.SpecChecks)
		c.Rep.SpecChecks += crep.SpecChecks
		for _, d := range crep.Disagree {
			d.Name += " [race build]"
			c.Rep.Disagreement(d)
		}
	} else if i := strings.Index(log, "\npanic: "); races == 0 || i >= 0 {
		// no report at all, or the child died (a panic is not a race report: it must not hide behind one)
		if i < 0 {
			i = 0
		}
		c.Rep.Disagreement(Disagreement{Kind: "corr", Name: "corr:C13.race_child_failed", Input: "race child", Impl: c13Head(log[i:], 2000), Expect: "a report"})
	}
	if races > 0 {
		// one report per "WARNING: DATA RACE" block; R1 (narrow): one side is the unsynchronised memo in util.Chars.TrimLength
		parts := strings.Split(log, "WARNING: DATA RACE")
		blocks := parts[1:]
		other := ""
		r1 := ""
		var otherCase interface{} = c13Case{Kind: "stress", Seed: c.Seed}
		var announced interface{}
		for bi, b := range blocks {
			// the case announced last before this report (the load streams announce theirs)
			if i := strings.LastIndex(parts[bi], "\nC13CASE "); i >= 0 {
				line := parts[bi][i+len("\nC13CASE "):]
				if j := strings.IndexByte(line, '\n'); j >= 0 {
					line = line[:j]
				}
				var acs c13Case
				if json.Unmarshal([]byte(line), &acs) == nil && acs.Kind != "" {
					announced = acs
				}
			}
			if strings.Contains(b, "util.(*Chars).TrimLength()") {
				if r1 == "" {
					r1 = b
				}
			} else if other == "" {
				other = b
				if announced != nil {
					otherCase = announced
				}
			}
		}
		if r1 != "" {
			c.Rep.Disagreement(Disagreement{Kind: "spec", Name: "race_detector_clean", Input: c13Case{Kind: "stress", Seed: c.Seed},
				Impl: c13Head("WARNING: DATA RACE"+r1, 6000), Expect: "no data race reported", Known: "R1"})
		}
		if other != "" {
			c.Rep.Disagreement(Disagreement{Kind: "spec", Name: "race_detector_clean", Input: otherCase,
				Impl: c13Head("WARNING: DATA RACE"+other, 6000), Expect: "no data race reported"})
		}
	}
}

func c13Head(s string, n int) string {
	if len(s) > n {
		return s[:n]
	}
	return s
}

// ---------------------------------------------------------------- runner

func c13Run(c *Ctx, cs c13Case) {
	switch cs.Kind {
	case "chunklist":
		c13ChunkList(c, cs)
	case "cache":
		c13Cache(c, cs)
	case "loop", "scans":
		c13Matcher(c, cs)
	case "twoslot":
		c13TwoSlot(c, cs)
	case "pmatch":
		c13PMatch(c, cs)
	case "stress":
		c13Stress(c, cs)
	case "textmem":
		c13TextMem(c, cs)
	case "display":
		c13Display(c, cs)
	case "pushers":
		c13Pushers(c, cs)
	case "walk":
		c13Walk(c, cs)
	case "walksession":
		c13WalkSession(c, cs)
	case "reload":
		c13Reload(c, cs)
	}
}

func runC13(c *Ctx) {
	c.Rep.Rule = "chunk-list op sequences (burst sizes and --tail values around multiples of 100; old snapshots re-read after later pushes), chunk-cache op sequences, " +
		"matcher request sequences through Loop and through scan (query edits at both ends, sort toggles, reloads and tail trims that bump the revision, item counts that come back, " +
		"full 100-line chunks with terms matching <= 20 lines, partitions 1..32, reset pending), both mailbox slots occupied, 1..8 concurrent pushers with random Reset timing; " +
		"several pushers at once (2..16 goroutines x 1..10000 lines, --header-lines, --tail, snapshots meanwhile; the real directory walker over generated trees; " +
		"the real fzf walking a tree of 6000..14000 (thorough: 42000) files with a query being searched while loading: numbering of every snapshot, everything pushed arrives once, " +
		"listing / queries / accepted output against the tree); " +
		"item text memory (Chars.Lines / Terminal.itemLines on byte- and rune-backed items, the holder of the lines re-slices, appends and assigns), " +
		"display sessions of the real fzf in a pty (records narrower and wider than the window, non-ASCII, multi-line, tabs, ANSI; wrap/hscroll/ellipsis/tabstop/gap/layout/" +
		"pointer/marker/preview/header-lines/tail options; slow and fast input; UI actions, resizes, typed and changed queries; every reported item, every listed match " +
		"and the accepted output compared with the records as they were read); " +
		"reload sessions of the real fzf in a pty (the input replaced 1..4 times by a loader that writes in bursts released by the harness and stays alive between them; reload alone, " +
		"with a query change in one action list, through a change:reload binding, reload-sync, while the previous loader runs; first bursts that bring the new list to the count of " +
		"the list it replaces; query changed and changed back, sort toggled between bursts; every plateau judged by the Coq spec published_ok and compared with the coordinator model); " +
		"non-trivial = a published merger that is a proper non-empty subset of its snapshot (sequences) / more than one snapshot (chunk list) / a cache hit (cache); distinct by JSON of the case"
	if os.Getenv("VERIF_C13_CHILD") != "" {
		n := c.N(40, 400)
		for i := 0; i < n; i++ {
			c13Stress(c, c13GenStress(c.Rng, 40))
		}
		// several pushers at once (goroutines, the real walker): the case is announced on stderr so that the parent can
		// tell which case a race report belongs to
		for i, nl := 0, c.N(12, 60); i < nl; i++ {
			cs := c13GenPushers(c.Rng, i%3 == 0)
			if i%4 == 3 {
				cs = c13GenWalk(c.Rng)
			}
			b, _ := json.Marshal(cs)
			fmt.Fprintf(os.Stderr, "\nC13CASE %s\n", b)
			c13Run(c, cs)
		}
		return
	}
	if c.Replay != "" {
		if b, err := os.ReadFile(c.Replay); err == nil { // a case of the reader streams?
			var w struct{ Input c06Case }
			var rc c06Case
			if json.Unmarshal(b, &w) == nil && (w.Input.Kind == "feed" || w.Input.Kind == "proc" || w.Input.Kind == "ops") {
				c06Run(c, &w.Input)
				return
			} else if json.Unmarshal(b, &rc) == nil && (rc.Kind == "feed" || rc.Kind == "proc" || rc.Kind == "ops") {
				c06Run(c, &rc)
				return
			}
		}
		var cs c13Case
		b, err := os.ReadFile(c.Replay)
		if err == nil {
			var w struct{ Input c13Case }
			if json.Unmarshal(b, &w) == nil && w.Input.Kind != "" {
				cs = w.Input
			} else {
				json.Unmarshal(b, &cs)
			}
		}
		c13Run(c, cs)
		return
	}
	if only := os.Getenv("VERIF_C13_ONLY"); only != "" { // development aid: one of the display-side streams alone
		n := c.N(64, 1200)
		if only == "textmem" {
			n = c.N(600, 10000)
		}
		cases := make([]c13Case, n)
		for i := range cases {
			if only == "textmem" {
				cases[i] = c13GenTextMem(c.Rng)
			} else if only == "reload" {
				cases[i] = c13GenReload(c.Rng)
			} else {
				cases[i] = c13GenDisplay(c.Rng)
			}
		}
		if only == "race" {
			c13DisplayRace(c, cases)
		} else {
			parallel(c, n, func(i int, _ *RNG) { c13Run(c, cases[i]) })
		}
		return
	}
	for _, f := range corpusFiles(c) {
		var cs c13Case
		b, _ := os.ReadFile(f)
		if json.Unmarshal(b, &cs) == nil && cs.Kind != "" {
			c13Run(c, cs)
			c.Rep.Count("corpus")
		}
	}
	// "items never change after they have been read" starts in the reader: records that straddle read boundaries must
	// stay intact when later reads reuse the buffers. Run the record-reader streams of the C06 package (contents are read
	// back AFTER the whole stream) on big inputs with many straddling records.
	{
		n := c.N(40, 600)
		seeds := make([]*RNG, n)
		for i := range seeds {
			seeds[i] = c.Rng.Fork()
		}
		parallel(c, n, func(i int, _ *RNG) { c06Feed(c, c06GenBig(seeds[i], "feed", false)) })
		np := c.N(20, 300)
		pseeds := make([]*RNG, np)
		for i := range pseeds {
			pseeds[i] = c.Rng.Fork()
		}
		parallel(c, np, func(i int, _ *RNG) { c06Proc(c, c06GenProc(pseeds[i])) })
		c.Rep.Count("reader-streams")
	}
	c13Slices(c)
	gen := func(n int, g func(r *RNG) c13Case) {
		cases := make([]c13Case, n)
		for i := range cases {
			cases[i] = g(c.Rng)
		}
		parallel(c, n, func(i int, _ *RNG) { c13Run(c, cases[i]) })
	}
	gen(c.N(400, 6000), c13GenChunkList)
	gen(c.N(300, 6000), c13GenCache)
	gen(c.N(200, 3000), func(r *RNG) c13Case { return c13GenMatcher(r, "loop") })
	gen(c.N(100, 1500), func(r *RNG) c13Case { return c13GenMatcher(r, "scans") })
	gen(c.N(200, 2000), c13GenPMatch)
	gen(c.N(200, 2000), c13GenTwoSlot)
	gen(c.N(600, 10000), c13GenTextMem)
	var dispCases []c13Case
	{
		n := c.N(120, 1200)
		dispCases = make([]c13Case, n)
		for i := range dispCases {
			dispCases[i] = c13GenDisplay(c.Rng)
		}
		parallel(c, n, func(i int, _ *RNG) { c13Run(c, dispCases[i]) })
	}
	// searching while a reloaded input is still being appended (c13reload.go)
	relT0 := time.Now()
	gen(c.N(96, 1200), c13GenReload)
	c.Rep.mu.Lock()
	c.Rep.Extra["reload_stream_wall_s"] = fmt.Sprintf("%.1f", time.Since(relT0).Seconds())
	c.Rep.mu.Unlock()
	ns := c.N(6, 60)
	for i := 0; i < ns; i++ {
		c13Stress(c, c13GenStress(c.Rng, 40))
	}
	// several pushers at once: goroutines (small cases in parallel - model and Coq spec on each - then big ones alone, so that
	// the pushers really overlap), the real walker on generated trees, the real fzf walking a tree
	loadT0 := time.Now()
	gen(c.N(60, 1000), func(r *RNG) c13Case { return c13GenPushers(r, false) })
	for i, nb := 0, c.N(8, 100); i < nb; i++ {
		c13Run(c, c13GenPushers(c.Rng, true))
	}
	for i, nw := 0, c.N(6, 60); i < nw; i++ {
		c13Run(c, c13GenWalk(c.Rng))
	}
	var walkSessions []c13Case
	for i, nw := 0, c.N(4, 40); i < nw; i++ {
		walkSessions = append(walkSessions, c13GenWalkSession(c.Rng, c.Thorough()))
		c13Run(c, walkSessions[i])
	}
	c.Rep.mu.Lock()
	c.Rep.Extra["load_streams_wall_s"] = fmt.Sprintf("%.1f", time.Since(loadT0).Seconds())
	c.Rep.mu.Unlock()
	if c.Thorough() {
		c13RaceChild(c)
		if n := 200 * c.Scale; len(dispCases) > n {
			dispCases = dispCases[:n]
		}
		c13DisplayRace(c, dispCases)
		if n := 12 * c.Scale; len(walkSessions) > n {
			walkSessions = walkSessions[:n]
		}
		c13WalkSessionRace(c, walkSessions)
	}
}

func init() { runners["C13"] = runC13 }
