package main

// C15 — the input area of the prompt row: --ghost / change-ghost / transform-ghost and the cursor inside the query.
// The prompt line shows the CURRENT QUERY wherever the cursor is; the ghost text stands there only while the query
// is empty (RenderGhostSpec.check_faithful_g, op 1509; the extracted printPrompt / printInfoImpl with t.ghost and
// the before/after split of the query at the cursor: RenderGhostModel.render_g, op 1510).
// GET / reports neither the ghost text nor the cursor: both are tracked from the actions the harness sends
// (c15Edit restates the line-editing actions the generators use: src/terminal.go actBackwardChar, actForwardChar,
// actBeginningOfLine, actEndOfLine, actPut, actBackwardDeleteChar, actDeleteChar, actUnixLineDiscard, actKillLine,
// actChangeQuery, actClearQuery).

import (
	"strings"
)

// c15Edit: the query and the cursor after an action list.  cx < 0: the cursor is not known (after a word motion);
// an edit at an unknown cursor is taken as an edit at the end of the query (the generators put end-of-line before it).
func c15Edit(q string, cx int, actions string) (string, int) {
	in := []rune(q)
	if cx > len(in) {
		cx = len(in)
	}
	at := func() int {
		if cx < 0 {
			cx = len(in)
		}
		return cx
	}
	for _, a := range strings.Split(actions, "+") {
		switch {
		case strings.HasPrefix(a, "put(") && strings.HasSuffix(a, ")"):
			s := []rune(a[4 : len(a)-1])
			k := at()
			in = append(append(append([]rune{}, in[:k]...), s...), in[k:]...)
			cx = k + len(s)
		case strings.HasPrefix(a, "change-query(") && strings.HasSuffix(a, ")"):
			in = []rune(a[13 : len(a)-1])
			cx = len(in)
		case a == "clear-query":
			in, cx = nil, 0
		case a == "backward-delete-char":
			if k := at(); k > 0 {
				in = append(append([]rune{}, in[:k-1]...), in[k:]...)
				cx = k - 1
			}
		case a == "delete-char":
			if k := at(); k < len(in) {
				in = append(append([]rune{}, in[:k]...), in[k+1:]...)
			}
		case a == "unix-line-discard":
			if k := at(); k > 0 {
				in = append([]rune{}, in[k:]...)
				cx = 0
			}
		case a == "kill-line":
			if k := at(); k < len(in) {
				in = append([]rune{}, in[:k]...)
			}
		case a == "backward-char":
			if cx > 0 {
				cx--
			}
		case a == "forward-char":
			if cx >= 0 && cx < len(in) {
				cx++
			}
		case a == "beginning-of-line":
			cx = 0
		case a == "end-of-line":
			cx = len(in)
		case a == "backward-word" || a == "forward-word":
			if len(in) > 0 {
				cx = -1
			}
		}
	}
	return string(in), cx
}

const c15GhostPrintf = "transform-ghost(printf '%s\\n' '"

// c15GhostArg: the ghost text an action installs (ok=false: not a ghost action).  transform-ghost takes the first
// line of the command's output (Terminal.captureLine)
func c15GhostArg(a string) (string, bool) {
	switch {
	case strings.HasPrefix(a, "change-ghost(") && strings.HasSuffix(a, ")"):
		return a[len("change-ghost(") : len(a)-1], true
	case strings.HasPrefix(a, c15GhostPrintf) && strings.HasSuffix(a, "')"):
		return a[len(c15GhostPrintf) : len(a)-2], true
	case a == "transform-ghost(true)":
		return "", true
	}
	return "", false
}

func c15HasGhostAction(actions string) bool {
	for _, a := range strings.Split(actions, "+") {
		if _, ok := c15GhostArg(a); ok {
			return true
		}
	}
	return false
}

// the ghost text after an action list
func c15Ghost(g string, actions string) string {
	for _, a := range strings.Split(actions, "+") {
		if t, ok := c15GhostArg(a); ok {
			g = t
		}
	}
	return g
}

// ghostMode: the session has a ghost text at some point (judged with ops 1509 / 1510 instead of 1504 / 1502)
func (cs *c15Case) ghostMode() bool {
	if cs.Ghost != "" {
		return true
	}
	for _, a := range cs.Actions {
		if c15HasGhostAction(a) {
			return true
		}
	}
	return false
}

var c15GhostTexts = []string{"type to search", "query...", "?", "find", "no query yet", "a", "ab", "[empty]"}

// c15KindGhost: the region "what the input area shows": a ghost text (--ghost and/or change-ghost / transform-ghost
// during the session), and a history made mostly of edits of the query and cursor motions inside it - typing at the
// cursor, deleting on either side of it, discarding the part before / after it, emptying the query and typing again -
// between the movements and selections of the ordinary history.  The query always fits the prompt row.
func c15KindGhost(cs *c15Case, r *RNG) {
	if cs.Unicode || cs.W < 24 {
		return
	}
	cs.HScroll = false
	maxq := min(6, cs.W-6-2)
	if cs.Info == 1 || cs.Info == 3 {
		maxq = min(maxq, cs.W-18-6)
	}
	if maxq < 2 {
		cs.Info = Pick(r, []int{0, 2})
		maxq = min(6, cs.W-6-2)
	}
	// a ghost text that fits the prompt row beside the longest prompt (4 columns) and an inline counter
	room := cs.W - 4 - 2
	if cs.Info == 1 || cs.Info == 3 {
		room = cs.W - 4 - 20
	}
	texts := []string{}
	for _, g := range c15GhostTexts {
		if len(g) <= room {
			texts = append(texts, g)
		}
	}
	if len(texts) == 0 {
		return
	}
	if r.Chance(3, 4) {
		cs.Ghost = Pick(r, texts)
	}
	ghostAct := func() string {
		switch r.Intn(6) {
		case 0:
			return "change-ghost()"
		case 1:
			return c15GhostPrintf + Pick(r, texts) + "')"
		case 2:
			return "transform-ghost(true)"
		}
		return "change-ghost(" + Pick(r, texts) + ")"
	}
	letters := []string{"a", "b", "e", "1", "0", "k", "_", "."}
	motions := []string{"backward-char", "backward-char", "forward-char", "beginning-of-line", "beginning-of-line", "end-of-line"}
	words := []string{"backward-word", "forward-word"}
	old := cs.Actions
	cs.Actions = nil
	q, cx := "", 0
	n := max(len(old), 12)
	for i := 0; i < n; i++ {
		var a string
		qlen := len([]rune(q))
		k := r.Intn(20)
		switch {
		case k < 4 && i < len(old) && !c15TouchesQuery(old[i]):
			a = old[i] // movement, selection, change-prompt ... of the ordinary history
		case k < 8:
			if qlen < maxq {
				a = "put(" + Pick(r, letters) + ")"
			} else {
				a = Pick(r, []string{"backward-delete-char", "delete-char"})
			}
		case k < 12 && qlen > 0:
			a = Pick(r, motions)
			if r.Chance(1, 4) {
				a += "+" + Pick(r, motions)
			}
		case k == 12 && qlen > 0:
			a = Pick(r, words)
		case k == 13:
			a = Pick(r, []string{"backward-delete-char", "delete-char"})
		case k == 14:
			a = Pick(r, []string{"unix-line-discard", "kill-line"})
		case k == 15:
			// what remains is the part of the query on the other side of the cursor
			a = Pick(r, []string{"backward-char+unix-line-discard", "beginning-of-line+forward-char+kill-line",
				"end-of-line+backward-char+unix-line-discard", "beginning-of-line+delete-char", "beginning-of-line+kill-line", "end-of-line+unix-line-discard"})
		case k == 16:
			a = Pick(r, []string{"clear-query", "change-query(" + Pick(r, letters) + Pick(r, []string{"", "1", ".a"}) + ")"})
		case k == 17 || k == 18:
			a = ghostAct()
			if r.Chance(1, 3) {
				a += "+" + Pick(r, []string{"clear-query", "beginning-of-line", "put(" + Pick(r, letters) + ")"})
			}
		default:
			a = Pick(r, []string{"up", "down", "page-down", "page-up"})
		}
		// an edit needs a known cursor: the word motions leave it unknown
		if cx < 0 && c15NeedsCursor(a) {
			a = Pick(r, []string{"beginning-of-line", "end-of-line"}) + "+" + a
		}
		q2, cx2 := c15Edit(q, cx, a)
		if len([]rune(q2)) > maxq {
			a = "clear-query"
			q2, cx2 = "", 0
		}
		q, cx = q2, cx2
		cs.Actions = append(cs.Actions, a)
	}
}

// does the action list change the query or move the cursor?
func c15TouchesQuery(actions string) bool {
	for _, a := range strings.Split(actions, "+") {
		switch {
		case strings.HasPrefix(a, "put("), strings.HasPrefix(a, "change-query("), a == "clear-query", a == "backward-delete-char",
			a == "delete-char", a == "unix-line-discard", a == "kill-line", a == "backward-char", a == "forward-char",
			a == "beginning-of-line", a == "end-of-line", a == "backward-word", a == "forward-word":
			return true
		}
	}
	return false
}

// the first query action of the list is one whose effect depends on where the cursor is
func c15NeedsCursor(actions string) bool {
	for _, a := range strings.Split(actions, "+") {
		switch {
		case a == "beginning-of-line", a == "end-of-line", a == "clear-query", strings.HasPrefix(a, "change-query("):
			return false
		case strings.HasPrefix(a, "put("), a == "backward-delete-char", a == "delete-char", a == "unix-line-discard", a == "kill-line",
			a == "backward-char", a == "forward-char":
			return true
		}
	}
	return false
}
