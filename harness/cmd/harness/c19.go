package main

// C19 — the built-in walker lists exactly the files the walker options describe.
//
// A case is a small "world" directory (W) materialised under c.Work: W/R is the tree that is
// walked, W/ext holds things symlinks may point at from outside.  The implementation is run
//   (A) in-process through the verif hook VerifReadFiles (Reader.readFiles with a collecting pusher),
//   (P) as the fzf process with a pty on stdin:  fzf --walker=.. --walker-root=.. --walker-skip=.. -f '' --print0
// and both are compared, as sorted lists, with the extracted SPEC (op 1902, kind "spec") and the
// extracted MODEL (op 1901, kind "corr").  The entry trees handed to spec/model are computed from the
// generated case (never read back from the file system); symlinks are resolved by a small resolver
// and fastwalk's loop protection is applied here (a symlink to a directory that is a textual ancestor
// gets an empty target), as stated in the interface at the top of coq/model/WalkModel.v.
//
// Both routes are BOUNDED: the spec's listing is finite (loop protection), so an implementation that has
// delivered more than twice as many items (plus a margin) as there are entries to list can never come back to
// "each entry exactly once".  The in-process walk is then stopped the way the terminal stops a reader
// (Reader.terminate through hook VerifWalk.Stop), the process is cut off by closing its output, and the run is
// reported as a violation of the property itself (kind "spec") with the generated world as the failing input.
// A walk that delivers nothing but does not come back either is stopped by a generous deadline and reported
// only when a second, longer attempt does not come back either.
//
// A second stream of worlds (c19err.go) contains a directory the walker CANNOT READ (mode 000 with an unprivileged
// walker, removed at the moment it is listed, path beyond PATH_MAX): expected is the spec's listing of the visible
// tree (op 1908, spec/WalkErrSpec.v) and a walk that is not given up (readFiles returns true; model op 1907).

import (
	"context"
	"encoding/json"
	"fmt"
	"os"
	"os/exec"
	"path/filepath"
	"sort"
	"strings"
	"sync"
	"syscall"
	"time"
	"unsafe"

	fzf "github.com/junegunn/fzf/src"
)

type c19Node struct {
	K int        `json:"k"` // 0 file, 1 dir, 2 symlink
	N string     `json:"n"`
	C []*c19Node `json:"c,omitempty"` // K=1: content
	T string     `json:"t,omitempty"` // K=2: link text; "$W" stands for the world directory
	// K=1: a directory the walker cannot read (c19err.go): 1 = mode 000 (takes effect when the walker runs without
	// privileges), 2 = removed at the moment the walker lists it (in-process route, needs `dir`)
	X int `json:"x,omitempty"`
}

type c19Run struct {
	Opts  [4]bool  `json:"opts"` // file, dir, follow, hidden
	Skips []string `json:"skips"`
	Proc  bool     `json:"proc"` // also through the fzf process
}

type c19Case struct {
	World []*c19Node `json:"world"` // content of W
	Cwd   string     `json:"cwd"`   // "" (= W) or "R"
	Roots []string   `json:"roots"` // relative to cwd, or absolute starting with "$W"
	Runs  []c19Run   `json:"runs"`
	Via   string     `json:"via,omitempty"` // in a replay: which route disagreed
}

// ---------- the world as data ----------

func c19Lookup(dir *c19Node, name string) *c19Node {
	for _, ch := range dir.C {
		if ch.N == name {
			return ch
		}
	}
	return nil
}

func c19NodeAt(world *c19Node, canon []string) *c19Node {
	cur := world
	for _, nm := range canon {
		if cur == nil || cur.K != 1 {
			return nil
		}
		cur = c19Lookup(cur, nm)
	}
	return cur
}

// resolve `target` as the kernel would from directory `from` (canonical, symlink-free path from W).
// Returns the canonical path of what it names; ok=false when dangling / outside W / too deep.
func c19Resolve(world *c19Node, from []string, target string, depth int) ([]string, bool) {
	if depth > 12 {
		return nil, false
	}
	cur := append([]string{}, from...)
	if strings.HasPrefix(target, "$W") {
		cur = []string{}
		target = strings.TrimPrefix(target, "$W")
	} else if strings.HasPrefix(target, "/") {
		return nil, false
	}
	comps := strings.Split(target, "/")
	for _, comp := range comps {
		switch comp {
		case "", ".":
			continue
		case "..":
			if len(cur) == 0 {
				return nil, false
			}
			if d := c19NodeAt(world, cur); d != nil && d.X == 1 && c19LockEff {
				return nil, false // ".." is looked up IN the directory: needs search permission
			}
			cur = cur[:len(cur)-1]
			continue
		}
		dir := c19NodeAt(world, cur)
		if dir == nil || dir.K != 1 {
			return nil, false
		}
		if dir.X == 1 && c19LockEff {
			return nil, false // mode 000: no search permission either
		}
		ch := c19Lookup(dir, comp)
		if ch == nil {
			return nil, false
		}
		if ch.K == 2 {
			res, ok := c19Resolve(world, cur, ch.T, depth+1)
			if !ok {
				return nil, false
			}
			cur = res
		} else {
			cur = append(cur, comp)
		}
	}
	// a non-directory may only be the last component; callers check the node kind
	return cur, true
}

type c19Expander struct {
	world *c19Node
	nodes int
	stats map[string]int
	// flag != nil: entries carry a fourth element, 1 = the walker can read this directory (the link's target), 0 = it
	// cannot (wire format `uentry` of coq/wire/W_Walk.v); canon = the directory, joined = the path fastwalk opens
	flag func(canon []string, joined string) bool
}

// fastwalk joinPaths (unix)
func c19Join(dir, base string) string {
	if len(dir) != 0 && dir[len(dir)-1] == '/' {
		return dir + base
	}
	return dir + "/" + base
}

func (x *c19Expander) mk(k int, name string, sub Val, canon []string, joined string) Val {
	if x.flag == nil {
		return L(I(k), Bytes(name), sub)
	}
	rd := 1
	if canon != nil && !x.flag(canon, joined) {
		rd = 0
		x.stats["unreadable"]++
	}
	return L(I(k), Bytes(name), sub, I(rd))
}

func c19ID(canon []string) string { return "/" + strings.Join(canon, "/") }

// entries of directory `dir` (canonical location canon) as the wire value of coq/wire/W_Walk.v;
// chain: identities of the textual ancestors (for fastwalk's loop protection).
func (x *c19Expander) expand(dir *c19Node, canon []string, chain []string, at string) Val {
	out := []Val{}
	for _, ch := range dir.C {
		x.nodes++
		if x.nodes > 4000 {
			break
		}
		joined := c19Join(at, ch.N)
		switch ch.K {
		case 0:
			out = append(out, x.mk(0, ch.N, L(), nil, ""))
			x.stats["file"]++
		case 1:
			sub := append(append([]string{}, canon...), ch.N)
			out = append(out, x.mk(1, ch.N, x.expand(ch, sub, append(append([]string{}, chain...), c19ID(sub)), joined), sub, joined))
			x.stats["dir"]++
		case 2:
			res, ok := c19Resolve(x.world, canon, ch.T, 0)
			var tn *c19Node
			if ok {
				tn = c19NodeAt(x.world, res)
			}
			if tn == nil || tn.K != 1 {
				out = append(out, x.mk(2, ch.N, L(), nil, ""))
				if tn == nil {
					x.stats["symlink_dangling"]++
				} else {
					x.stats["symlink_file"]++
				}
				continue
			}
			id := c19ID(res)
			loop := false
			for _, a := range chain {
				if a == id {
					loop = true
				}
			}
			if loop {
				out = append(out, x.mk(3, ch.N, L(), nil, "")) // never entered, so never read
				x.stats["symlink_dir_loop"]++
			} else {
				out = append(out, x.mk(3, ch.N, x.expand(tn, res, append(append([]string{}, chain...), id), joined), res, joined))
				x.stats["symlink_dir"]++
			}
		}
	}
	return L(out...)
}

// the world as the graph of coq/spec/WalkLinkSpec.v: directories numbered (0 = the world directory), entries
// [kind, name, number] with link targets resolved by c19Resolve
type c19Graph struct {
	ids map[string]int
	val Val
}

func c19BuildGraph(world *c19Node) *c19Graph {
	g := &c19Graph{ids: map[string]int{}}
	var number func(d *c19Node, canon []string)
	number = func(d *c19Node, canon []string) {
		g.ids[c19ID(canon)] = len(g.ids)
		for _, ch := range d.C {
			if ch.K == 1 {
				number(ch, append(append([]string{}, canon...), ch.N))
			}
		}
	}
	number(world, []string{})
	binds := make([]Val, len(g.ids))
	var fill func(d *c19Node, canon []string)
	fill = func(d *c19Node, canon []string) {
		ents := []Val{}
		for _, ch := range d.C {
			switch ch.K {
			case 0:
				ents = append(ents, L(I(0), Bytes(ch.N), I(0)))
			case 1:
				sub := append(append([]string{}, canon...), ch.N)
				ents = append(ents, L(I(1), Bytes(ch.N), I(g.ids[c19ID(sub)])))
				fill(ch, sub)
			case 2:
				res, ok := c19Resolve(world, canon, ch.T, 0)
				var tn *c19Node
				if ok {
					tn = c19NodeAt(world, res)
				}
				if tn == nil || tn.K != 1 {
					ents = append(ents, L(I(2), Bytes(ch.N), I(0)))
				} else {
					ents = append(ents, L(I(3), Bytes(ch.N), I(g.ids[c19ID(res)])))
				}
			}
		}
		id := g.ids[c19ID(canon)]
		binds[id] = L(I(id), L(ents...))
	}
	fill(world, []string{})
	g.val = L(binds...)
	return g
}

// the wire value [[root, entries]...] for the case and, per root, the argument of op 1906 (fuel, directories on
// the way, root directory, graph); ok=false when a root does not name a directory
func c19RootsG(cs c19Case) (Val, map[string]int, []Val, bool) { return c19RootsF(cs, "", nil) }

// flag != nil: the trees carry readability flags, the roots are [root, entries, rd]; w = the world directory on disk
func c19RootsF(cs c19Case, w string, flag func(canon []string, joined string) bool) (Val, map[string]int, []Val, bool) {
	world := &c19Node{K: 1, C: cs.World}
	x := &c19Expander{world: world, stats: map[string]int{}, flag: flag}
	graph := c19BuildGraph(world)
	unfoldArgs := []Val{}
	cwd := []string{}
	if cs.Cwd != "" {
		cwd = strings.Split(cs.Cwd, "/")
	}
	roots := []Val{}
	for _, r := range cs.Roots {
		res, ok := c19Resolve(world, cwd, r, 0)
		if !ok {
			return Val{}, nil, nil, false
		}
		n := c19NodeAt(world, res)
		if n == nil || n.K != 1 {
			return Val{}, nil, nil, false
		}
		// fastwalk's ancestor test (shouldTraverse) compares a link's target with filepath.Dir^k of the joined path:
		// the cleaned root and its lexical parents, down to "." (the current directory) for a relative root and
		// to "/" for an absolute one.  Directories above the world have identities no link of the world can name.
		chain := []string{}
		if strings.HasPrefix(r, "$W") {
			q := filepath.Clean("/" + strings.TrimPrefix(r, "$W"))
			for {
				pr, ok := c19Resolve(world, []string{}, "$W"+q, 0)
				if !ok {
					return Val{}, nil, nil, false
				}
				chain = append(chain, c19ID(pr))
				if q == "/" {
					break
				}
				q = filepath.Dir(q)
			}
		} else {
			q := filepath.Clean(r)
			for {
				pr, ok := c19Resolve(world, cwd, q, 0)
				if !ok {
					return Val{}, nil, nil, false
				}
				chain = append(chain, c19ID(pr))
				if q == "." || q == "/" {
					break
				}
				q = filepath.Dir(q)
			}
		}
		// the root string as the implementation receives it; fastwalk opens cleanRootPath(root) and what it joins to it
		at := strings.TrimRight(strings.Replace(r, "$W", w, 1), "/")
		if flag == nil {
			roots = append(roots, L(Bytes(r), x.expand(n, res, chain, at)))
		} else {
			roots = append(roots, L(Bytes(r), x.expand(n, res, chain, at), B(flag(res, at))))
		}
		cids := []int{}
		for _, id := range chain {
			n, known := graph.ids[id]
			if !known {
				return Val{}, nil, nil, false
			}
			cids = append(cids, n)
		}
		unfoldArgs = append(unfoldArgs, L(I(c19UnfoldFuel), Ints(cids), I(graph.ids[c19ID(res)]), graph.val))
	}
	if x.nodes > 4000 {
		return Val{}, nil, nil, false
	}
	x.stats["nodes"] = x.nodes
	return L(roots...), x.stats, unfoldArgs, true
}

// ---------- the world on disk ----------

func c19Materialise(w string, nodes []*c19Node, at string) error {
	for _, n := range nodes {
		p := filepath.Join(at, n.N)
		if at+"/"+n.N != p { // names are single clean components
			return fmt.Errorf("bad name %q", n.N)
		}
		switch n.K {
		case 0:
			if err := os.WriteFile(p, nil, 0644); err != nil {
				return err
			}
		case 1:
			if len(p) > 3000 {
				// beyond PATH_MAX no absolute path works: go on relative to the directory itself
				if err := c19MaterialiseDeep(w, n, at); err != nil {
					return err
				}
				continue
			}
			if err := os.Mkdir(p, 0755); err != nil {
				return err
			}
			if err := c19Materialise(w, n.C, p); err != nil {
				return err
			}
		case 2:
			if err := os.Symlink(strings.Replace(n.T, "$W", w, 1), p); err != nil {
				return err
			}
		}
	}
	return nil
}

// ---------- running the implementation ----------

func c19RealRoots(cs c19Case, w string) []string {
	out := []string{}
	for _, r := range cs.Roots {
		out = append(out, strings.Replace(r, "$W", w, 1))
	}
	return out
}

// expected values mention the roots as typed, with $W replaced; so do the args of spec/model
func c19WireRoots(v Val, cs c19Case, w string) Val {
	out := []Val{}
	for i, r := range v.L {
		out = append(out, L(Bytes(strings.Replace(cs.Roots[i], "$W", w, 1)), r.L[1]))
	}
	return L(out...)
}

// what a bounded run of the implementation says besides the items
type c19Stop struct {
	Over     bool   // more than `limit` items arrived: stopped
	Deadline bool   // did not return within the deadline: stopped
	Msg      string // panic / error / "did not stop"
}

var c19Deadlines = []time.Duration{5 * time.Second, 90 * time.Second}
const c19UnfoldFuel = 64 // depth bound of the unfolding (the result does not depend on it: unfold_fuel_irrelevant)
var c19RunawaySeen = 0 // runs of this process in which the walker had to be stopped

func c19Hook(cs c19Case, w string, run c19Run, limit int, deadline time.Duration, hx c19HookX) (items []string, st c19Stop) {
	old, _ := os.Getwd()
	if err := os.Chdir(filepath.Join(w, cs.Cwd)); err != nil {
		return nil, c19Stop{Msg: "chdir: " + err.Error()}
	}
	defer os.Chdir(old)
	var mu sync.Mutex
	items = []string{}
	over := false
	var wk *fzf.VerifWalk
	// a directory that vanishes at the moment the walker lists it (c19err.go): recognised by identity, not by name
	var vanishFi os.FileInfo
	if hx.vanish != "" {
		vanishFi, _ = os.Stat(hx.vanish)
		defer hx.restore()
	}
	wk = fzf.VerifNewWalk(func(s string) {
		mu.Lock()
		if len(items) < limit {
			items = append(items, s)
		} else if !over {
			over = true
			go wk.Stop()
		}
		if vanishFi != nil && strings.HasSuffix(s, "/") {
			if fi, err := os.Stat(s); err == nil && os.SameFile(fi, vanishFi) {
				os.RemoveAll(hx.vanish)
				vanishFi = nil
			}
		}
		mu.Unlock()
	})
	// a walker without privileges (mode-000 directories): the effective uid of this process for the time of the walk
	if hx.drop {
		if err := syscall.Seteuid(c19Nobody); err != nil {
			return nil, c19Stop{Msg: "seteuid: " + err.Error()}
		}
		defer syscall.Seteuid(0)
	}
	type result struct {
		ok  bool
		pan string
	}
	done := make(chan result, 1)
	go func() {
		res := result{}
		defer func() {
			if r := recover(); r != nil {
				res.pan = fmt.Sprint(r)
			}
			done <- res
		}()
		res.ok = wk.Run(c19RealRoots(cs, w), run.Opts[0], run.Opts[1], run.Opts[2], run.Opts[3], run.Skips)
	}()
	var res result
	timer := time.NewTimer(deadline)
	defer timer.Stop()
	select {
	case res = <-done:
	case <-timer.C:
		st.Deadline = true
		wk.Stop()
		select {
		case res = <-done:
		case <-time.After(60 * time.Second):
			st.Msg = "the walk did not stop within 60 s of Reader.terminate"
			mu.Lock()
			items = append([]string{}, items...)
			mu.Unlock()
			return items, st
		}
	}
	mu.Lock()
	st.Over = over
	mu.Unlock()
	if res.pan != "" {
		st.Msg = res.pan
	} else if !res.ok && !st.Over && !st.Deadline {
		st.Msg = "readFiles returned false"
	}
	return items, st
}

// a writer that accepts at most max bytes; the process behind it then gets a closed pipe
type c19CapWriter struct {
	b    []byte
	max  int
	over bool
}

func (cw *c19CapWriter) Write(p []byte) (int, error) {
	if len(cw.b)+len(p) > cw.max {
		cw.over = true
		return 0, fmt.Errorf("output cap reached")
	}
	cw.b = append(cw.b, p...)
	return len(p), nil
}

// a pty whose slave side serves as fzf's stdin (the walker only runs when stdin is a terminal)
type c19Pty struct {
	master *os.File
	slave  string
}

func c19OpenPty() (*c19Pty, error) {
	m, err := os.OpenFile("/dev/ptmx", os.O_RDWR|syscall.O_NOCTTY, 0)
	if err != nil {
		return nil, err
	}
	var n uint32
	var unlock int32
	if _, _, e := syscall.Syscall(syscall.SYS_IOCTL, m.Fd(), syscall.TIOCSPTLCK, uintptr(unsafe.Pointer(&unlock))); e != 0 {
		m.Close()
		return nil, e
	}
	if _, _, e := syscall.Syscall(syscall.SYS_IOCTL, m.Fd(), syscall.TIOCGPTN, uintptr(unsafe.Pointer(&n))); e != 0 {
		m.Close()
		return nil, e
	}
	return &c19Pty{master: m, slave: fmt.Sprintf("/dev/pts/%d", n)}, nil
}

func c19WalkerArg(o [4]bool) string {
	parts := []string{}
	for i, nm := range []string{"file", "dir", "follow", "hidden"} {
		if o[i] {
			parts = append(parts, nm)
		}
	}
	return strings.Join(parts, ",")
}

// maxBytes bounds the output (0: 64 MiB); over=true when the process wrote more and was cut off
func c19Proc(c *Ctx, pty *c19Pty, cs c19Case, w string, run c19Run, maxBytes int, drop bool) (items []string, msg string, over bool) {
	items, msg, over = c19ProcRun(c, pty, cs, w, run, maxBytes, drop)
	return
}

func c19ProcRun(c *Ctx, pty *c19Pty, cs c19Case, w string, run c19Run, maxBytes int, drop bool) ([]string, string, bool) {
	if maxBytes <= 0 {
		maxBytes = 64 << 20
	}
	slave, err := os.OpenFile(pty.slave, os.O_RDWR|syscall.O_NOCTTY, 0)
	if err != nil {
		return nil, "pty: " + err.Error(), false
	}
	defer slave.Close()
	args := []string{"--walker=" + c19WalkerArg(run.Opts), "--walker-root"}
	args = append(args, c19RealRoots(cs, w)...)
	skip := strings.Join(run.Skips, ",")
	if skip == "" {
		skip = ","
	}
	args = append(args, "--walker-skip="+skip, "-f", "", "--print0")
	ctx, cancel := context.WithTimeout(context.Background(), 30*time.Second)
	defer cancel()
	cmd := exec.CommandContext(ctx, c.Fzf, args...)
	cmd.Dir = filepath.Join(w, cs.Cwd)
	cmd.Stdin = slave
	if drop { // a walker without privileges (mode-000 directories)
		cmd.SysProcAttr = &syscall.SysProcAttr{Credential: &syscall.Credential{Uid: c19Nobody, Gid: c19Nobody}}
	}
	var errb strings.Builder
	out := &c19CapWriter{max: maxBytes}
	cmd.Stdout = out
	cmd.Stderr = &errb
	cmd.Env = []string{"PATH=" + os.Getenv("PATH"), "HOME=" + os.Getenv("HOME"), "TERM=xterm-256color",
		"TMPDIR=" + c.Work, "SHELL=/bin/sh", "FZF_DEFAULT_OPTS=", "FZF_DEFAULT_COMMAND="}
	err = cmd.Run()
	code := 0
	s := string(out.b)
	if out.over {
		// cut off: the complete items received so far
		if i := strings.LastIndexByte(s, 0); i >= 0 {
			return strings.Split(s[:i], "\x00"), "", true
		}
		return []string{}, "", true
	}
	if err != nil {
		if ee, ok := err.(*exec.ExitError); ok {
			code = ee.ExitCode()
		} else {
			return nil, "start: " + err.Error(), false
		}
	}
	if ctx.Err() != nil {
		return nil, "timeout", false
	}
	items := []string{}
	if s != "" {
		if !strings.HasSuffix(s, "\x00") {
			return nil, fmt.Sprintf("unterminated output %q (exit %d, stderr %q)", s, code, errb.String()), false
		}
		items = strings.Split(strings.TrimSuffix(s, "\x00"), "\x00")
	}
	// exit status: 0 when something was listed, 1 when nothing
	if (len(items) > 0 && code != 0) || (len(items) == 0 && code != 1) {
		return items, fmt.Sprintf("exit %d with %d items (stderr %q)", code, len(items), errb.String()), false
	}
	return items, "", false
}

func c19Sorted(xs []string) []string {
	out := append([]string{}, xs...)
	sort.Strings(out)
	return out
}

func c19Head(xs []string, n int) []string {
	if len(xs) > n {
		return xs[:n]
	}
	return xs
}

func c19ValStrs(v Val) []string {
	out := []string{}
	for _, x := range v.L {
		out = append(out, x.Str())
	}
	return out
}

func c19Eq(a, b []string) bool {
	if len(a) != len(b) {
		return false
	}
	for i := range a {
		if a[i] != b[i] {
			return false
		}
	}
	return true
}

// the file system as a function of the path (the world does not change while a case is checked)
type c19FS struct {
	st, lst map[string]os.FileInfo
}

func (f *c19FS) stat(p string) os.FileInfo {
	if fi, ok := f.st[p]; ok {
		return fi
	}
	fi, err := os.Stat(p)
	if err != nil {
		fi = nil
	}
	f.st[p] = fi
	return fi
}

func (f *c19FS) lstat(p string) os.FileInfo {
	if fi, ok := f.lst[p]; ok {
		return fi
	}
	fi, err := os.Lstat(p)
	if err != nil {
		fi = nil
	}
	f.lst[p] = fi
	return fi
}

// For every listed path, every proper prefix of it (cut at a separator) that lies below the root and is a symbolic
// link must (1) not exist at all without `follow`, and (2) not name a directory that a shorter prefix of the same
// path (or the current directory, for a relative path) names as well.  Returns the first offence.
func c19LinkChecks(f *c19FS, w string, cs c19Case, run c19Run, got []string) (name, item, expect string) {
	base := filepath.Clean(w + "/" + cs.Cwd)
	abs := func(p string) string {
		if strings.HasPrefix(p, "/") {
			return p
		}
		return base + "/" + p
	}
	roots := []string{}
	for _, r := range c19RealRoots(cs, w) {
		roots = append(roots, filepath.Clean(abs(r)))
	}
	atOrAboveRoot := func(full string) bool {
		cl := filepath.Clean(full)
		for _, r := range roots {
			if r == cl || cl == "/" || strings.HasPrefix(r, cl+"/") {
				return true
			}
		}
		return false
	}
	for _, it := range got {
		// the path as the walker's ancestor test sees it (filepath.Dir cleans): "ext/../R/x" is R/x, below R and "."
		p := filepath.Clean(strings.TrimSuffix(it, "/"))
		var anc []os.FileInfo
		first := base
		if strings.HasPrefix(p, "/") {
			first = "/"
		}
		if fi := f.stat(first); fi != nil {
			anc = append(anc, fi)
		}
		for i := 1; i < len(p); i++ {
			if p[i] != '/' {
				continue
			}
			full := abs(p[:i])
			si := f.stat(full)
			if si == nil {
				break // listed_path_exists speaks about this one
			}
			li := f.lstat(full)
			if li != nil && li.Mode()&os.ModeSymlink != 0 && !atOrAboveRoot(full) {
				if !run.Opts[2] {
					return "descends_links_only_with_follow", it, "without `follow` nothing below the symbolic link " + p[:i] + " is listed"
				}
				for _, a := range anc {
					if os.SameFile(a, si) {
						return "no_lap_through_link_cycle", it, "the symbolic link " + p[:i] + " leads back to a directory this path has already gone through: it is listed (as a leaf) but not entered again"
					}
				}
			}
			anc = append(anc, si)
		}
	}
	return "", "", ""
}

func c19Check(c *Ctx, pty *c19Pty, cs c19Case, seq int) {
	rep := c.Rep
	rootsV, stats, unfoldArgs, ok := c19RootsG(cs)
	if !ok {
		rep.Count("case_rejected")
		return
	}
	// the trees handed to spec and model are the finite unfolding of the world computed by the extracted SPEC
	// (op 1906, coq/spec/WalkLinkSpec.v: a link that leads back to a directory on its own path is a leaf); the
	// expander above is kept as a second, independent computation of the same thing
	for i, ua := range unfoldArgs {
		uv := c.Model.Call(1906, ua)
		if !(uv.IsList && len(uv.L) == 2 && uv.L[0].I == 1) {
			rep.Count("case_rejected(unfold out of fuel)")
			return
		}
		if !uv.L[1].Equal(rootsV.L[i].L[1]) {
			rep.Disagreement(Disagreement{Kind: "corr", Name: "corr:C19.unfold (harness expander vs spec unfolding)", Input: cs,
				Impl: rootsV.L[i].L[1].String(), Expect: uv.L[1].String()})
		}
		rootsV.L[i] = L(rootsV.L[i].L[0], uv.L[1])
	}
	w := filepath.Join(c.Work, fmt.Sprintf("c19w%d", seq%4))
	os.RemoveAll(w)
	if err := os.MkdirAll(w, 0755); err != nil {
		panic(err)
	}
	if err := c19Materialise(w, cs.World, w); err != nil {
		rep.Count("materialise_failed")
		c19Unlock(cs.World, w)
		os.RemoveAll(w)
		return
	}
	c19Lock(cs.World, w)
	defer os.RemoveAll(w)
	defer c19Unlock(cs.World, w)
	wire := c19WireRoots(rootsV, cs, w)
	for k, v := range stats {
		rep.CountN(k, v)
	}
	// worlds with directories the walker cannot read (c19err.go): mode 000, vanishing, path beyond PATH_MAX
	ew := c19ErrWorld(cs, w)
	if ew != nil {
		rep.Count("err_world=" + ew.kind)
	}
	fsc := &c19FS{st: map[string]os.FileInfo{}, lst: map[string]os.FileInfo{}}
	for _, run := range cs.Runs {
		one := c19Case{cs.World, cs.Cwd, cs.Roots, []c19Run{run}, "hook"}
		key, _ := json.Marshal(one)
		arg := L(L(B(run.Opts[0]), B(run.Opts[1]), B(run.Opts[2]), B(run.Opts[3])), Strs(run.Skips), wire)
		var specV, modelV Val
		var spec, model []string
		modelOK := false
		// per route, when they differ (a directory that vanishes does so in the in-process route only)
		specOf := map[string][]string{}
		modelOf := map[string][]string{}
		modelOKOf := map[string]bool{}
		modelVOf := map[string]Val{}
		noModel := map[string]bool{}
		unreadable := 0
		if ew == nil {
			specV = c.Model.Call(1902, arg)
			modelV = c.Model.Call(1901, arg)
			spec = c19Sorted(c19ValStrs(specV))
			modelOK = modelV.IsList && len(modelV.L) == 2 && modelV.L[0].I == 1
			model = []string{}
			if modelOK {
				model = c19Sorted(c19ValStrs(modelV.L[1]))
			}
			for _, via := range []string{"hook", "process"} {
				specOf[via], modelOf[via], modelOKOf[via], modelVOf[via] = spec, model, modelOK, modelV
			}
		} else {
			// the spec's listing of what can be SEEN (op 1908, spec/WalkErrSpec.v) and the model with fastwalk's error
			// protocol (op 1907, model/WalkErrModel.v: items and readFiles' return value, which must be true)
			bad := false
			for _, via := range []string{"hook", "process"} {
				if via == "process" && !(ew.vanish != nil && run.Opts[1]) {
					specOf[via], modelOf[via], modelOKOf[via], modelVOf[via] = specOf["hook"], modelOf["hook"], modelOKOf["hook"], modelVOf["hook"]
					noModel[via] = noModel["hook"]
					continue
				}
				fwire, nun, ok := ew.flagged(cs, w, rootsV, via, run)
				if !ok {
					bad = true
					break
				}
				if via == "hook" {
					unreadable = nun
				}
				farg := L(arg.L[0], arg.L[1], fwire)
				sv := c.Model.Call(1908, farg)
				specOf[via] = c19Sorted(c19ValStrs(sv))
				if ew.long {
					// the extracted model reverses every path with the quadratic List.rev (filepath.Base, HasSuffix): paths of
					// 4 KiB cost seconds per walk.  In these worlds the spec alone is evaluated (kind "spec"); the model with
					// the error protocol is compared in the worlds with locked and vanishing directories.
					noModel[via] = true
					rep.Count("model_skipped(long paths)")
					continue
				}
				mv := c.Model.Call(1907, farg)
				modelVOf[via] = mv
				modelOKOf[via] = mv.IsList && len(mv.L) == 3 && mv.L[0].I == 1 && mv.L[2].I == 1
				modelOf[via] = []string{}
				if modelOKOf[via] {
					modelOf[via] = c19Sorted(c19ValStrs(mv.L[1]))
				}
			}
			if bad {
				rep.Disagreement(Disagreement{Kind: "corr", Name: "corr:C19.unfold (flagged tree differs from the spec unfolding)", Input: one})
				continue
			}
			spec, model, modelOK, modelV = specOf["hook"], modelOf["hook"], modelOKOf["hook"], modelVOf["hook"]
			rep.CountN("unreadable_dirs_met", unreadable)
		}
		impls := map[string][]string{}
		returnedFalse := false
		// bounded runs (see the header): the listing is finite, so is what a correct walker may deliver
		limit := 2*len(spec) + 64
		specBytes := 0
		for _, s := range spec {
			specBytes += len(s) + 1
		}
		runaway := false
		// deadlines: 5 s for a walk that normally takes milliseconds; a miss is not a verdict: the walk is run once
		// more with 90 s, and only a second miss is reported.  Once the run has seen a walker that does not come
		// back, later misses are cut short (1 s) and only counted.
		first := c19Deadlines[0]
		if c19RunawaySeen > 0 {
			first = time.Second
		}
		hx := c19HookX{}
		if ew != nil {
			hx = ew.hookX(run)
		}
		items, st := c19Hook(cs, w, run, limit, first, hx)
		rep.ImplTraces++
		unconfirmed := false
		if st.Deadline && !st.Over && st.Msg == "" {
			if c19RunawaySeen > 0 {
				unconfirmed = true
				rep.Count("hook_deadline_after_runaway")
			} else {
				rep.Count("hook_deadline_retry")
				items, st = c19Hook(cs, w, run, limit, c19Deadlines[1], hx)
			}
		}
		switch {
		case unconfirmed:
			runaway = true
		case st.Over:
			runaway = true
			c19RunawaySeen++
			rep.Count("runaway(hook)")
			rep.SpecChecks++
			rep.Disagreement(Disagreement{Kind: "spec", Name: "each_entry_exactly_once(hook)", Input: one,
				Impl:   map[string]interface{}{"stopped_after_items": len(items), "some_items": c19Head(c19Sorted(items), 40)},
				Expect: map[string]interface{}{"items": len(spec), "listing": c19Head(spec, 80)}})
		case st.Deadline && st.Msg == "":
			runaway = true
			c19RunawaySeen++
			rep.Count("runaway(hook)")
			if run.Opts[0] || run.Opts[1] { // a walker with neither file nor dir cannot be asked for (options.go rejects it)
				rep.SpecChecks++
				rep.Disagreement(Disagreement{Kind: "spec", Name: "walk_terminates(hook)", Input: one,
					Impl:   map[string]interface{}{"still_walking_after_s": c19Deadlines[1].Seconds(), "items_so_far": len(items), "some_items": c19Head(c19Sorted(items), 40)},
					Expect: map[string]interface{}{"items": len(spec), "listing": c19Head(spec, 80)}})
			}
		case st.Msg == "readFiles returned false":
			// the walk was given up (fastwalk.Walk returned an error): what it delivered is judged like any other
			// listing first (walk_eq_listing below: the property's own words), then the return value is reported
			returnedFalse = true
			impls["hook"] = items
		case st.Msg != "":
			rep.Disagreement(Disagreement{Kind: "spec", Name: "no_crash(hook)", Input: one, Impl: st.Msg, Expect: "no panic / error"})
		default:
			impls["hook"] = items
		}
		if runaway {
			rep.Count("process_skipped_after_runaway")
		}
		if !runaway && run.Proc && pty != nil && (run.Opts[0] || run.Opts[1]) {
			one.Via = "process"
			pspecBytes := 0
			for _, s := range specOf["process"] {
				pspecBytes += len(s) + 1
			}
			if pspecBytes > specBytes {
				specBytes = pspecBytes
			}
			items, msg, over := c19Proc(c, pty, cs, w, run, 2*specBytes+(64<<10), ew != nil && ew.drop)
			rep.ImplTraces++
			rep.Count("via_process")
			if over {
				c19RunawaySeen++
				rep.Count("runaway(process)")
				rep.SpecChecks++
				rep.Disagreement(Disagreement{Kind: "spec", Name: "each_entry_exactly_once(process)", Input: one,
					Impl:   map[string]interface{}{"cut_off_after_items": len(items), "some_items": c19Head(c19Sorted(items), 40)},
					Expect: map[string]interface{}{"items": len(spec), "listing": c19Head(spec, 80)}})
			} else if msg != "" {
				rep.Disagreement(Disagreement{Kind: "spec", Name: "process_runs", Input: one, Impl: msg, Expect: "NUL-terminated items, exit 0 (items) or 1 (none)"})
			} else {
				impls["process"] = items
			}
		}
		nontrivial := stats["dir"] > 0 && len(spec) > 0 && (len(run.Skips) > 0 || stats["symlink_dir"] > 0 || !run.Opts[3] || unreadable > 0)
		rep.Eval(string(key), nontrivial)
		for _, via := range []string{"hook", "process"} {
			got, ok := impls[via]
			if !ok {
				continue
			}
			one.Via = via
			got = c19Sorted(got)
			spec, model, modelOK, modelV := specOf[via], modelOf[via], modelOKOf[via], modelVOf[via]
			// (5a) the spec on the implementation's output
			rep.SpecChecks++
			if !c19Eq(got, spec) {
				rep.Disagreement(Disagreement{Kind: "spec", Name: "walk_eq_listing(" + via + ")", Input: one, Impl: got, Expect: spec})
			}
			for _, it := range got {
				if strings.HasPrefix(it, "./") {
					rep.Disagreement(Disagreement{Kind: "spec", Name: "no_dot_slash(" + via + ")", Input: one, Impl: it, Expect: "no leading ./"})
					break
				}
			}
			// the property's own wording: "omits hidden entries unless `hidden` is set". The code (and the man page:
			// "hidden: Include and follow hidden directories") applies `hidden` to directories only, so a hidden FILE
			// (or an unfollowed hidden symlink) is listed without `hidden`: known finding c19-hidden-files. A hidden
			// DIRECTORY component in any listed path is never acceptable (already part of walk_eq_listing).
			if !run.Opts[3] {
				for _, it := range got {
					trimmed := strings.TrimSuffix(it, "/")
					base := trimmed[strings.LastIndexByte(trimmed, '/')+1:]
					if strings.HasPrefix(base, ".") && base != "." && base != ".." && !strings.HasSuffix(it, "/") {
						rep.Disagreement(Disagreement{Kind: "spec", Name: "omits_hidden_entries(" + via + ")", Input: one, Impl: it,
							Expect: "no hidden entry without `hidden`", Known: "c19-hidden-files"})
						break
					}
				}
			}
			// the file-system-level checks see the world as the walker did: without privileges when it had none
			undrop := func() {}
			if ew != nil && ew.drop && syscall.Seteuid(c19Nobody) == nil {
				undrop = func() { syscall.Seteuid(0) }
			}
			// the trailing separator, judged by the file system itself (independent of the generated case)
			{
				for _, it := range got {
					full := strings.TrimSuffix(it, "/")
					if !filepath.IsAbs(full) {
						full = w + "/" + cs.Cwd + "/" + full
					}
					limode, err := c19StatMode(full, false) // os.Lstat, also beyond PATH_MAX
					if err != nil {
						rep.Disagreement(Disagreement{Kind: "spec", Name: "listed_path_exists(" + via + ")", Input: one, Impl: it, Expect: "an existing path"})
						break
					}
					realDir := limode.IsDir()
					linkDir := false
					if limode&os.ModeSymlink != 0 {
						if stmode, err := c19StatMode(full, true); err == nil && stmode.IsDir() {
							linkDir = true
						}
					}
					marked := strings.HasSuffix(it, "/")
					okMark := (realDir && marked && run.Opts[1]) || (linkDir && marked == run.Opts[2] && run.Opts[0]) ||
						(!realDir && !linkDir && !marked && run.Opts[0])
					if !okMark {
						rep.Disagreement(Disagreement{Kind: "spec", Name: "dir_marked_iff_dir(" + via + ")", Input: one, Impl: it,
							Expect: "directories (and followed links to directories) end with the separator, nothing else does; dirs need `dir`, the rest `file`"})
						break
					}
				}
			}
			// symbolic links on the way to a listed path, judged by the file system itself (independent of the generated
			// case, of the resolver above and of the model): without `follow` there is none below a root; with `follow`
			// none of them leads back to a directory the path has already gone through (each entry once, not once per lap)
			if name, it, exp := c19LinkChecks(fsc, w, cs, run, got); name != "" {
				rep.Disagreement(Disagreement{Kind: "spec", Name: name + "(" + via + ")", Input: one, Impl: it, Expect: exp})
			}
			undrop()
			if len(cs.Roots) == 1 {
				for i := 1; i < len(got); i++ {
					if got[i] == got[i-1] {
						rep.Disagreement(Disagreement{Kind: "spec", Name: "no_duplicates(" + via + ")", Input: one, Impl: got[i], Expect: "every path once"})
						break
					}
				}
			}
			// (5b) implementation == model
			if noModel[via] {
				continue
			}
			if !modelOK || !c19Eq(got, model) {
				exp := interface{}(model)
				if !modelOK {
					exp = "model error " + modelV.String()
				}
				rep.Disagreement(Disagreement{Kind: "corr", Name: "corr:C19.read_files(" + via + ")", Input: one, Impl: got, Expect: exp})
			}
		}
		if returnedFalse {
			rep.Count("readFiles_returned_false")
		}
		// (each of these runs has been judged by walk_eq_listing already; a cap, so that they leave room for it in the report)
		if returnedFalse && rep.Distribution["readFiles_returned_false"] <= 10 {
			one.Via = "hook"
			rep.Disagreement(Disagreement{Kind: "spec", Name: "no_crash(hook)", Input: one, Impl: "readFiles returned false", Expect: "no panic / error"})
		}
		rep.Count("opts=" + c19WalkerArg(run.Opts))
		rep.Count(fmt.Sprintf("skips=%d", len(run.Skips)))
		rep.CountN("listed", len(spec))
	}
	rep.Sample(cs)
	rep.Count(fmt.Sprintf("roots=%d", len(cs.Roots)))
	for _, r := range cs.Roots {
		switch {
		case strings.HasPrefix(r, "$W"):
			rep.Count("root=absolute")
		case r == "." || r == "./":
			rep.Count("root=.")
		default:
			rep.Count("root=relative")
		}
	}
}

// ---------- generator ----------

var c19Names = []string{"a", "b", "c", "d", "foo", "bar", "x y", "n\nl", ".h", ".hid", ".git", "node_modules",
	"é", "-d", "a.b", "..x", "A", "q'q", "b\\s", ".\\a", ".\\.h", "t\t", " lead", "x;y", "$v", "*", "..."}

type c19Loc struct {
	canon []string
	node  *c19Node
}

func c19GenDir(r *RNG, depth int, maxDepth int, top bool, dotbs bool) []*c19Node {
	n := Pick(r, []int{0, 0, 1, 2, 2, 3, 3, 4, 5})
	if top && n == 0 && r.Chance(3, 4) {
		n = r.Range(1, 4)
	}
	used := map[string]bool{}
	out := []*c19Node{}
	for i := 0; i < n; i++ {
		nm := Pick(r, c19Names)
		if r.Chance(1, 6) {
			nm = Pick(r, []string{"a", "b", "foo", "bar"}) // collisions across directories on purpose
		}
		if dotbs && top && i == 0 {
			nm = ".\\" + Pick(r, []string{"a", "b", "zz", ".h"})
		}
		if used[nm] {
			continue
		}
		used[nm] = true
		k := r.Intn(20)
		switch {
		case k < 6:
			out = append(out, &c19Node{K: 0, N: nm})
		case k < 15 && depth < maxDepth:
			out = append(out, &c19Node{K: 1, N: nm, C: c19GenDir(r, depth+1, maxDepth, false, false)})
		case k < 15:
			out = append(out, &c19Node{K: 0, N: nm})
		default:
			out = append(out, &c19Node{K: 2, N: nm})
		}
	}
	return out
}

func c19Collect(nodes []*c19Node, canon []string, dirs, files, links *[]c19Loc) {
	for _, n := range nodes {
		loc := c19Loc{append(append([]string{}, canon...), n.N), n}
		switch n.K {
		case 0:
			*files = append(*files, loc)
		case 1:
			*dirs = append(*dirs, loc)
			c19Collect(n.C, loc.canon, dirs, files, links)
		case 2:
			*links = append(*links, loc)
		}
	}
}

func c19Rel(fromDir, to []string) string {
	i := 0
	for i < len(fromDir) && i < len(to) && fromDir[i] == to[i] {
		i++
	}
	parts := []string{}
	for j := i; j < len(fromDir); j++ {
		parts = append(parts, "..")
	}
	parts = append(parts, to[i:]...)
	if len(parts) == 0 {
		return "."
	}
	return strings.Join(parts, "/")
}

func c19Gen(r *RNG) c19Case {
	dotbs := r.Chance(1, 8) // a top-level name starting with `.\` (K4, fixed: must be listed verbatim)
	maxDepth := Pick(r, []int{1, 2, 3, 3, 4, 4})
	rtree := c19GenDir(r, 1, maxDepth, true, dotbs)
	ext := c19GenDir(r, 1, 2, true, false)
	cs := c19Case{World: []*c19Node{{K: 1, N: "R", C: rtree}, {K: 1, N: "ext", C: ext}, {K: 0, N: "outside file"}}}
	var dirs, files, links []c19Loc
	c19Collect(cs.World, nil, &dirs, &files, &links)
	// symlink targets
	for _, l := range links {
		from := l.canon[:len(l.canon)-1]
		var to []string
		switch k := r.Intn(12); {
		case k < 5 && len(dirs) > 0: // a directory anywhere in W (sibling, cousin, ancestor -> loop, ext)
			to = Pick(r, dirs).canon
		case k < 8 && len(files) > 0:
			to = Pick(r, files).canon
		case k < 9 && len(links) > 1: // a chain through another symlink
			to = Pick(r, links).canon
		case k < 10:
			to = nil // dangling
		default:
			if len(dirs) > 0 {
				to = Pick(r, dirs).canon
			}
		}
		switch {
		case to == nil:
			l.node.T = Pick(r, []string{"nowhere", "../nope/x", "$W/ext/none"})
		case r.Chance(1, 3):
			l.node.T = "$W/" + strings.Join(to, "/")
		default:
			l.node.T = c19Rel(from, to)
			if r.Chance(1, 8) {
				l.node.T = "./" + l.node.T
			}
		}
	}
	// link cycles on purpose: links to the directory they live in, to its parent, to any ancestor (the world
	// directory above the walked tree included), to the walked root, pairs of directories that point at each other,
	// chains of links that end at an ancestor, and a round trip through ext.  A walker that follows links must
	// list such a link once (as a leaf) and come back.
	if r.Chance(2, 5) {
		inR := []c19Loc{}
		var extLoc *c19Loc
		for i, d := range dirs {
			if d.canon[0] == "R" {
				inR = append(inR, d)
			} else if len(d.canon) == 1 && d.canon[0] == "ext" {
				extLoc = &dirs[i]
			}
		}
		add := func(d c19Loc, nm, text string) {
			if c19Lookup(d.node, nm) != nil {
				return
			}
			n := &c19Node{K: 2, N: nm, T: text}
			d.node.C = append(d.node.C, n)
			links = append(links, c19Loc{append(append([]string{}, d.canon...), nm), n})
		}
		lnames := []string{"self", "up", "loop", "back", "l", "zz", ".loop", "a", "x y", "..x"}
		for i, n := 0, Pick(r, []int{1, 1, 2, 2, 3}); i < n && len(inR) > 0; i++ {
			d := Pick(r, inR)
			nm := Pick(r, lnames)
			switch r.Intn(9) {
			case 0:
				add(d, nm, Pick(r, []string{".", ".", "./", "./."}))
			case 1:
				add(d, nm, Pick(r, []string{"..", "..", "../", "../."}))
			case 2: // k levels up, at most to the world directory
				k := r.Range(1, len(d.canon))
				add(d, nm, strings.TrimSuffix(strings.Repeat("../", k), "/"))
			case 3: // the same by an absolute text
				k := r.Intn(len(d.canon) + 1)
				add(d, nm, strings.TrimSuffix("$W/"+strings.Join(d.canon[:k], "/"), "/"))
			case 4: // the walked tree's top
				if r.Bool() {
					add(d, nm, c19Rel(d.canon, []string{"R"}))
				} else {
					add(d, nm, "$W/R")
				}
			case 5: // two directories that point at each other
				e := Pick(r, inR)
				add(d, nm, c19Rel(d.canon, e.canon))
				add(e, Pick(r, lnames), c19Rel(e.canon, d.canon))
			case 6: // a chain of links that ends at an ancestor
				nm2 := Pick(r, lnames)
				if nm2 != nm {
					add(d, nm2, Pick(r, []string{"..", "."}))
					add(d, nm, nm2)
				}
			case 7: // out to ext and back
				if extLoc != nil {
					add(*extLoc, Pick(r, lnames), c19Rel([]string{"ext"}, d.canon))
					add(d, nm, c19Rel(d.canon, []string{"ext"}))
				}
			default: // two links to ancestors side by side (a walker that laps doubles its output at every level)
				add(d, nm, ".")
				add(d, Pick(r, lnames), "..")
			}
		}
	}
	// roots
	rdirs := []c19Loc{}
	for _, d := range dirs {
		if len(d.canon) >= 2 && d.canon[0] == "R" {
			rdirs = append(rdirs, d)
		}
	}
	switch k := r.Intn(20); {
	case k < 7:
		cs.Cwd = "R"
		cs.Roots = []string{Pick(r, []string{".", ".", ".", "./", "./."})}
	case k < 11:
		cs.Roots = []string{Pick(r, []string{"R", "R", "./R", "R/", "R//", "././R", "R/.", "ext/../R", "R/./"})}
	case k < 14:
		cs.Roots = []string{"$W/R"}
	case k < 16 && len(rdirs) > 0:
		d := Pick(r, rdirs)
		if r.Bool() {
			cs.Roots = []string{strings.Join(d.canon, "/")}
		} else {
			cs.Roots = []string{"$W/" + strings.Join(d.canon, "/")}
		}
	case k < 18:
		cs.Roots = []string{"R", Pick(r, []string{"ext", "$W/ext", "./ext/"})}
	case len(rdirs) > 1:
		cs.Roots = []string{strings.Join(Pick(r, rdirs).canon, "/"), strings.Join(Pick(r, rdirs).canon, "/")}
	default:
		cs.Cwd = "R"
		cs.Roots = []string{"."}
	}
	// runs
	nruns := 4
	for i := 0; i < nruns; i++ {
		run := c19Run{Proc: i == 0}
		switch r.Intn(6) {
		case 0:
			run.Opts = [4]bool{true, false, true, true} // the default
		case 1:
			run.Opts = [4]bool{true, true, r.Bool(), false}
		default:
			run.Opts = [4]bool{r.Bool(), r.Bool(), r.Bool(), r.Bool()}
		}
		if run.Proc && !run.Opts[0] && !run.Opts[1] {
			run.Opts[r.Intn(2)] = true
		}
		ns := Pick(r, []int{0, 1, 1, 2, 2, 3})
		for j := 0; j < ns; j++ {
			s := ""
			pickDir := func() []string {
				if len(dirs) == 0 {
					return []string{"R"}
				}
				return Pick(r, dirs).canon
			}
			tail := func(c []string, n int) string {
				if n > len(c) {
					n = len(c)
				}
				return strings.Join(c[len(c)-n:], "/")
			}
			switch r.Intn(13) {
			case 0:
				s = Pick(r, []string{".git", "node_modules"})
			case 1, 2, 3:
				c := pickDir()
				s = c[len(c)-1]
			case 4:
				if len(links) > 0 {
					c := Pick(r, links).canon
					s = c[len(c)-1]
				} else if len(files) > 0 {
					c := Pick(r, files).canon
					s = c[len(c)-1]
				}
			case 5, 6:
				s = tail(pickDir(), r.Range(2, 4))
			case 7, 8:
				s = "/" + tail(pickDir(), r.Range(1, 3))
			case 9: // near misses
				c := pickDir()
				s = Pick(r, []string{tail(c, 2) + "/", "x" + tail(c, 2), tail(c, 1) + "/", "/"})
			case 11: // 'oo/bar' must not skip 'foo/bar'
				cands := []c19Loc{}
				for _, d := range dirs {
					if n := len(d.canon); n >= 3 && len(d.canon[n-2]) >= 2 && d.canon[n-2][1] != '/' {
						cands = append(cands, d)
					}
				}
				if len(cands) > 0 {
					c := Pick(r, cands).canon
					s = tail(c, 2)[1:]
					if r.Chance(1, 4) {
						s = tail(c, 3)[1:]
					}
				} else {
					c := pickDir()
					s = strings.Join(c, "/")
				}
			case 10: // path as printed under root "." or under R
				c := pickDir()
				if len(c) > 1 {
					s = strings.Join(c[1:], "/")
				}
			default:
				c := pickDir()
				s = strings.Join(c, "/")
				if r.Bool() {
					s = "/" + s
				}
			}
			if s == "" || strings.Contains(s, ",") {
				continue
			}
			run.Skips = append(run.Skips, s)
		}
		cs.Runs = append(cs.Runs, run)
	}
	return cs
}

func c19TrimPaths(c *Ctx) {
	rep := c.Rep
	alpha := []byte{'.', '.', '/', '/', '\\', 'a', 'b', ' '}
	n := c.N(1500, 30000)
	for i := 0; i < n; i++ {
		l := Pick(c.Rng, []int{0, 1, 2, 2, 3, 3, 4, 5, 6, 8, 11})
		b := make([]byte, l)
		for j := range b {
			b[j] = alpha[c.Rng.Intn(len(alpha))]
		}
		s := string(b)
		got := fzf.VerifTrimPath(s)
		want := c.Model.Call(1903, Bytes(s)).Str()
		rep.Count("trim_path_cases")
		if got != want && rep.Distribution["trim_path_disagreements"] < 3 {
			rep.Count("trim_path_disagreements")
			rep.Disagreement(Disagreement{Kind: "corr", Name: "corr:C19.trim_path", Input: map[string]string{"trim_path": s}, Impl: got, Expect: want})
		}
	}
}

func runC19(c *Ctx) {
	c.Rep.Rule = "random directory worlds (walked tree depth<=4, empty dirs, hidden files/dirs, symlinks to files/dirs/ancestors/dangling/chains, link cycles on purpose in 2 of 5 worlds (self, parent, any ancestor up to the world directory above the root, the root, mutual pairs, chains ending at an ancestor, round trips through ext, two ancestor links side by side), relative and absolute link texts, names with blanks/newlines/backslashes/quotes); roots '.', relative, absolute, with ./ and trailing /, sub-directories, two roots; 4 option/skip combinations per world (skip entries: base names, paths, /suffixes, near misses), one of them also through the fzf process on a pty; a second stream (1 per 5 of the first) of such worlds with ONE directory the walker cannot read worked in - mode 000 with an unprivileged walker (process started as uid 65534 / effective uid of the in-process walk, when the harness is root), a directory removed at the moment it is listed (in-process, worlds without links), a chain of long names whose path passes PATH_MAX - mostly with two roots or a root with siblings around the directory, expected = the spec's listing of the visible tree (op 1908) and readFiles returning true; non-trivial = at least one directory, a non-empty listing and (a skip list or a followed dir-symlink or hidden off or an unreadable directory on the way); distinct by JSON of (world, roots, run)"
	c19SetupUnpriv(c)
	pty, err := c19OpenPty()
	if err != nil {
		c.Rep.Extra["pty_error"] = err.Error()
		c.Rep.Disagreement(Disagreement{Kind: "corr", Name: "corr:C19.process (no pty available: " + err.Error() + ")", Input: nil})
		pty = nil
	} else {
		defer pty.master.Close()
	}
	if c.Replay != "" {
		b, err := os.ReadFile(c.Replay)
		if err != nil {
			panic(err)
		}
		var w struct{ Input json.RawMessage }
		var cs c19Case
		if json.Unmarshal(b, &w) == nil && len(w.Input) > 0 {
			var tp map[string]string
			if json.Unmarshal(w.Input, &tp) == nil && len(tp) == 1 {
				if s, ok := tp["trim_path"]; ok {
					got := fzf.VerifTrimPath(s)
					want := c.Model.Call(1903, Bytes(s)).Str()
					c.Rep.Eval(s, true)
					if got != want {
						c.Rep.Disagreement(Disagreement{Kind: "corr", Name: "corr:C19.trim_path", Input: tp, Impl: got, Expect: want})
					}
					return
				}
			}
			json.Unmarshal(w.Input, &cs)
		} else {
			json.Unmarshal(b, &cs)
		}
		for i := range cs.Runs {
			if cs.Via == "process" {
				cs.Runs[i].Proc = true
			}
		}
		c19Check(c, pty, cs, 0)
		return
	}
	seq := 0
	for _, f := range corpusFiles(c) {
		var cs c19Case
		b, _ := os.ReadFile(f)
		if json.Unmarshal(b, &cs) == nil && len(cs.Roots) > 0 {
			c19Check(c, pty, cs, seq)
			seq++
			c.Rep.Count("corpus")
		}
	}
	n := c.N(300, 6000)
	for i := 0; i < n; i++ {
		c19Check(c, pty, c19Gen(c.Rng), seq)
		seq++
	}
	// worlds with a directory the walker cannot read (c19err.go)
	nerr := c.N(60, 1200)
	for i := 0; i < nerr; i++ {
		c19Check(c, pty, c19GenErr(c.Rng), seq)
		seq++
	}
	// after the worlds, and with its own cap, so that these "corr" reports never crowd out a "spec" one
	c19TrimPaths(c)
}

func init() { runners["C19"] = runC19 }
