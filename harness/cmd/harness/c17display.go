package main

// C17, option values that are measured in terminal columns (--marker-multi-line, --pointer, --marker, --scrollbar,
// --ellipsis and, for totality only, every other text-valued option): values are built from grapheme clusters of every
// display width — narrow, wide, zero-width (ZWSP, combining marks, ZWJ, variation selectors), control characters, emoji
// sequences — with the zero-width ones placed in front, in the middle and AT THE END, and total widths biased to the
// documented limits (2 for the signs, 3 and 6 for the multi-line marker).  Segmentation and widths come from the library
// the implementation uses (uniseg): they are the oracle of spec and model, not part of the claim.
// Checked on the implementation's output (ParseOptions, the value given on the command line, in $FZF_DEFAULT_OPTS, in
// the options file, alone or after an earlier occurrence):
//   error_is_exit2   a configuration or an error, never a panic
//   marker_accept    accepted exactly when the value is empty or 3 / 6 columns wide (theorem marker_accept)
//   marker_reading   the three elements are consecutive pieces of the value, in order; the rest has no width
//                    (theorem marker_reading_ok); model correspondence op 1731
//   sign_accept / sign_verbatim   --pointer / --marker (up to 2 columns), --scrollbar (one or two characters of width 1),
//                    --ellipsis: accepted as documented and kept verbatim (first line)

import (
	"fmt"
	"strconv"
	"strings"
	"unicode/utf8"

	fzf "github.com/junegunn/fzf/src"
	"github.com/rivo/uniseg"
)

type c17DispCase struct {
	Kind   string   `json:"kind"`   // "display"
	Option string   `json:"option"` // --marker-multi-line | --pointer | --marker | --scrollbar | --ellipsis
	Value  string   `json:"value"`
	Layer  int      `json:"layer"`            // 0 command line, 1 $FZF_DEFAULT_OPTS, 2 options file
	Eq     bool     `json:"eq,omitempty"`     // --opt=value instead of --opt value
	Before []string `json:"before,omitempty"` // words in front of it in the same layer
}

var c17Narrow = []string{"a", "b", "|", ">", "*", ".", "╻", "┃", "╹", "│", "▌", "é", "λ", " "}
var c17Wide = []string{"가", "日", "本", "😀", "Ａ", "👍🏽", "🇰🇷", "👨\u200d👩\u200d👧"}
var c17Zero = []string{"\u200b", "\t", "\x01", "\x7f", "\r", "\u200d", "\u0301", "\ufe0f", "\u2060", "\x1b", "\u00ad", "\u200e", "\ufeff"}

func c17FirstLine(s string) string { return strings.SplitN(s, "\n", 2)[0] }

func c17Clusters(s string) (texts []string, widths []int, total int) {
	gr := uniseg.NewGraphemes(s)
	for gr.Next() {
		t := string(gr.Runes())
		w := uniseg.StringWidth(t)
		texts, widths, total = append(texts, t), append(widths, w), total+w
	}
	return
}

// a value whose width aims at `target`, with zero-width clusters in front / in the middle / at the end
func c17DisplayValue(r *RNG, target int) string {
	var sb strings.Builder
	zeros := func(p int) {
		for r.Chance(1, p) {
			sb.WriteString(Pick(r, c17Zero))
		}
	}
	zeros(4)
	for w := 0; w < target; {
		if target-w >= 2 && r.Chance(1, 4) {
			sb.WriteString(Pick(r, c17Wide))
			w += 2
		} else {
			sb.WriteString(Pick(r, c17Narrow))
			w++
		}
		zeros(6)
	}
	zeros(2)
	if r.Chance(1, 25) {
		sb.WriteString("\nsecond line")
	}
	return sb.String()
}

func c17GenDisp(r *RNG) c17DispCase {
	dc := c17DispCase{Kind: "display"}
	dc.Option = Pick(r, []string{"--marker-multi-line", "--marker-multi-line", "--marker-multi-line", "--pointer", "--marker", "--scrollbar", "--ellipsis"})
	switch dc.Option {
	case "--marker-multi-line":
		dc.Value = c17DisplayValue(r, Pick(r, []int{3, 3, 3, 6, 6, 6, 0, 1, 2, 4, 5, 7, 9}))
	default:
		dc.Value = c17DisplayValue(r, Pick(r, []int{0, 1, 1, 2, 2, 2, 3, 4}))
	}
	dc.Eq = r.Bool() || dc.Option == "--scrollbar" || strings.HasPrefix(dc.Value, "-") || strings.HasPrefix(dc.Value, "+")
	if c17CleanForShell([]string{dc.Value}) && !strings.ContainsAny(dc.Value, "\\\r") {
		dc.Layer = Pick(r, []int{0, 0, 1, 2})
	}
	if r.Chance(1, 3) {
		// an earlier, valid occurrence of the same option (it is overridden), or an unrelated option
		earlier := Pick(r, []string{"ab", ">", ""})
		if dc.Option == "--marker-multi-line" {
			earlier = Pick(r, []string{"abc", "╻┃╹", ""})
		}
		dc.Before = []string{Pick(r, []string{"--multi", "--cycle", dc.Option + "=" + earlier, dc.Option + "=" + earlier, "--no-unicode", "--ansi"})}
	}
	return dc
}

// the text that follows `name:` for a TOP-LEVEL field of Options in the canonical dump (nested structs such as the
// colour theme have fields of the same names; quoted strings may contain any of the punctuation)
func c17DumpTop(d, name string) (string, bool) {
	depth := 0
	fieldStart := false
	for i := 0; i < len(d); {
		ch := d[i]
		switch {
		case ch == '"':
			q, err := strconv.QuotedPrefix(d[i:])
			if err != nil {
				return "", false
			}
			i += len(q)
			fieldStart = false
			continue
		case ch == '{' || ch == '[':
			depth++
			fieldStart = ch == '{'
		case ch == '}' || ch == ']':
			depth--
			fieldStart = false
		case ch == ';':
			fieldStart = true
		default:
			if fieldStart && depth == 1 && strings.HasPrefix(d[i:], name+":") {
				return d[i+len(name)+1:], true
			}
			fieldStart = false
		}
		i++
	}
	return "", false
}

// a top-level field that is a (pointer to a) string
func c17DumpString(d, name string) (string, bool) {
	rest, ok := c17DumpTop(d, name)
	if !ok {
		return "", false
	}
	q, err := strconv.QuotedPrefix(strings.TrimPrefix(rest, "&"))
	if err != nil {
		return "", false
	}
	s, err := strconv.Unquote(q)
	return s, err == nil
}

// MarkerMulti:&["a","b","c",];
func c17DumpMarker(d string) ([]string, bool) {
	rest, ok := c17DumpTop(d, "MarkerMulti")
	if !ok || !strings.HasPrefix(rest, "&[") {
		return nil, false
	}
	rest = rest[2:]
	out := []string{}
	for k := 0; k < 3; k++ {
		q, err := strconv.QuotedPrefix(rest)
		if err != nil {
			return nil, false
		}
		s, err := strconv.Unquote(q)
		if err != nil {
			return nil, false
		}
		out = append(out, s)
		rest = strings.TrimPrefix(rest[len(q):], ",")
	}
	return out, true
}

func c17CheckDisp(c *Ctx, dc c17DispCase) {
	rep := c.Rep
	words := append([]string{}, dc.Before...)
	if dc.Eq {
		words = append(words, dc.Option+"="+dc.Value)
	} else {
		words = append(words, dc.Option, dc.Value)
	}
	var file, env, args []string
	switch dc.Layer {
	case 1:
		env = words
	case 2:
		file = words
	default:
		args = words
	}
	if args == nil {
		args = []string{}
	}
	status, errs, dump := "", "", ""
	func() {
		defer func() {
			if r := recover(); r != nil {
				status = fmt.Sprintf("PANIC %v", r)
			}
		}()
		res := c17ImplParseRaw(c, file, dc.Layer == 2, env, args)
		if res.err != nil {
			status, errs = "error", res.err.Error()
			return
		}
		status, dump = "ok", fzf.VerifDumpOptions(res.opts)
	}()
	rep.ImplTraces++
	rep.SpecChecks++
	key := fmt.Sprintf("display:%s:%q:%d:%v:%q", dc.Option, dc.Value, dc.Layer, dc.Eq, dc.Before)
	rep.Eval(key, status == "ok")
	rep.Count("display:" + dc.Option + ":" + strings.SplitN(status, " ", 2)[0])
	if strings.HasPrefix(status, "PANIC") {
		rep.Disagreement(Disagreement{Kind: "spec", Name: "error_is_exit2", Input: dc, Impl: status, Expect: "a configuration or an error, never a panic"})
		return
	}
	v := c17FirstLine(dc.Value)
	if !utf8.ValidString(v) {
		return // totality only
	}
	texts, widths, total := c17Clusters(v)
	if n := len(widths); n > 0 && widths[n-1] == 0 {
		rep.Count("display:zero-width-at-end")
	}
	switch dc.Option {
	case "--marker-multi-line":
		wantOK := v == "" || total == 3 || total == 6
		rep.SpecChecks++
		if (status == "ok") != wantOK {
			rep.Disagreement(Disagreement{Kind: "spec", Name: "marker_accept", Input: dc, Impl: status + " " + errs,
				Expect: fmt.Sprintf("accepted=%v (display width %d; documented: empty, 3 or 6 columns)", wantOK, total)})
			return
		}
		// model correspondence (op 1731: clusters with their widths -> three elements | user error)
		cl := make([]Val, len(texts))
		for i := range texts {
			cl[i] = L(Bytes(texts[i]), I(widths[i]))
		}
		mv := c.Model.Call(1731, L(cl...))
		mparts, mstatus := []string{}, "MODEL-CRASH "+mv.String()
		if len(mv.L) == 2 && len(mv.L[0].L) == 2 && mv.L[0].L[0].I == 1 {
			mstatus = "ok"
			for _, p := range mv.L[0].L[1].L {
				mparts = append(mparts, p.Str())
			}
		} else if len(mv.L) == 2 && len(mv.L[0].L) == 2 && mv.L[0].L[0].I == 0 {
			mstatus = "error"
		}
		if status != "ok" {
			if mstatus != "error" {
				rep.Disagreement(Disagreement{Kind: "corr", Name: "corr:C17.marker_multi", Input: dc, Impl: status, Expect: mstatus})
			}
			return
		}
		parts, ok := c17DumpMarker(dump)
		if !ok {
			rep.Disagreement(Disagreement{Kind: "corr", Name: "corr:C17.marker_multi", Input: dc, Impl: "MarkerMulti not found in the dump of Options", Expect: mstatus})
			return
		}
		rep.SpecChecks++
		joined := strings.Join(parts, "")
		bad := ""
		if !strings.HasPrefix(v, joined) {
			bad = "the three elements are not consecutive pieces of the value"
		} else if _, _, w := c17Clusters(v[len(joined):]); w != 0 {
			bad = fmt.Sprintf("%q of the value is in no element although it is %d column(s) wide", v[len(joined):], w)
		}
		if bad != "" {
			rep.Disagreement(Disagreement{Kind: "spec", Name: "marker_reading", Input: dc, Impl: fmt.Sprintf("%q: %s", parts, bad),
				Expect: "consecutive pieces of the value, in order; what is left over has no width"})
			return
		}
		// "3 elements for top, middle, and bottom": when the value has exactly three visible clusters of equal width
		// (the documented shape, e.g. the default ╻┃╹), element i holds the i-th of them
		vis := []int{}
		for i, w := range widths {
			if w > 0 {
				vis = append(vis, i)
			}
		}
		if len(vis) == 3 && widths[vis[0]] == widths[vis[1]] && widths[vis[1]] == widths[vis[2]] {
			rep.SpecChecks++
			rep.Count("display:marker-three-equal")
			for i, p := range parts {
				pt, pw, ptotal := c17Clusters(p)
				nvis := 0
				for _, w := range pw {
					if w > 0 {
						nvis++
					}
				}
				if nvis != 1 || ptotal != widths[vis[0]] || !strings.Contains(strings.Join(pt, ""), texts[vis[i]]) {
					rep.Disagreement(Disagreement{Kind: "spec", Name: "marker_elements", Input: dc, Impl: fmt.Sprintf("%q", parts),
						Expect: fmt.Sprintf("element %d holds exactly the visible cluster %q", i, texts[vis[i]])})
					return
				}
			}
		}
		if mstatus != "ok" || strings.Join(mparts, "\x00") != strings.Join(parts, "\x00") {
			rep.Disagreement(Disagreement{Kind: "corr", Name: "corr:C17.marker_multi", Input: dc, Impl: fmt.Sprintf("%q", parts), Expect: fmt.Sprintf("%s %q", mstatus, mparts)})
		}
	case "--pointer", "--marker", "--ellipsis", "--scrollbar":
		wantOK := true
		switch dc.Option {
		case "--pointer", "--marker":
			wantOK = uniseg.StringWidth(v) <= 2
		case "--scrollbar":
			rs := []rune(dc.Value) // not cut at the first line
			wantOK = len(rs) <= 2
			for _, x := range rs {
				wantOK = wantOK && uniseg.StringWidth(string(x)) == 1
			}
			v = dc.Value
		}
		// an earlier occurrence of the same option in Before is overridden; other Before words do not matter here
		rep.SpecChecks++
		if (status == "ok") != wantOK {
			rep.Disagreement(Disagreement{Kind: "spec", Name: "sign_accept", Input: dc, Impl: status + " " + errs,
				Expect: fmt.Sprintf("accepted=%v (display width %d)", wantOK, uniseg.StringWidth(v))})
			return
		}
		if status == "ok" {
			field := map[string]string{"--pointer": "Pointer", "--marker": "Marker", "--ellipsis": "Ellipsis", "--scrollbar": "Scrollbar"}[dc.Option]
			got, ok := c17DumpString(dump, field)
			rep.SpecChecks++
			if !ok || got != v {
				rep.Disagreement(Disagreement{Kind: "spec", Name: "sign_verbatim", Input: dc, Impl: fmt.Sprintf("%s = %q (found: %v)", field, got, ok),
					Expect: fmt.Sprintf("%q", v)})
			}
		}
	}
}

func c17DispCands(dc c17DispCase) []c17DispCase {
	out := []c17DispCase{}
	if len(dc.Before) > 0 {
		x := dc
		x.Before = nil
		out = append(out, x)
	}
	if dc.Layer != 0 {
		x := dc
		x.Layer = 0
		out = append(out, x)
	}
	// drop one grapheme cluster (keeps the value well-formed UTF-8)
	texts, _, _ := c17Clusters(dc.Value)
	if len(texts) > 1 && strings.Join(texts, "") == dc.Value {
		for i := range texts {
			x := dc
			x.Value = strings.Join(c17Without(append([]string{}, texts...), i), "")
			if strings.HasPrefix(x.Value, "-") || strings.HasPrefix(x.Value, "+") {
				x.Eq = true
			}
			out = append(out, x)
		}
	}
	return out
}

func c17RunDisp(c *Ctx) {
	r := c.Rng
	for i, n := 0, c.N(1500, 40000); i < n; i++ {
		c17RunShrunk(c, c17GenDisp(r), c17CheckDisp, c17DispCands)
	}
}
