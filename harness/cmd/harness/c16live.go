package main

import (
	"bytes"
	"encoding/json"
	"fmt"
	"io"
	"math/big"
	"net"
	"os"
	"path/filepath"
	"strconv"
	"strings"
	"time"
	"unicode/utf8"
)

// C16, second part: what an answered GET is shown (the real Terminal.dumpStatus behind handleHttpRequest through a hook),
// and the real fzf process behind a real socket (kind "live").

// ---------- generators shared by both layers ----------

// c16Num: decimal numerals biased towards the boundaries of the integer types a parser may go through
// (8/16/31/32/53/63/64-bit, powers of ten around them), random 64-bit and wider values, leading zeros, and non-numerals.
func c16Num(r *RNG) string {
	pow2 := func(k uint) *big.Int { return new(big.Int).Lsh(big.NewInt(1), k) }
	switch r.Intn(14) {
	case 0, 1, 2:
		return strconv.Itoa(r.Intn(12))
	case 3:
		return strconv.Itoa(r.Range(0, 300))
	case 4, 5, 6, 7:
		b := Pick(r, []*big.Int{pow2(7), pow2(8), pow2(15), pow2(16), pow2(31), pow2(32), pow2(53), pow2(62), pow2(63), pow2(63), pow2(64), pow2(64), pow2(65),
			new(big.Int).Exp(big.NewInt(10), big.NewInt(18), nil), new(big.Int).Exp(big.NewInt(10), big.NewInt(19), nil), new(big.Int).Exp(big.NewInt(10), big.NewInt(20), nil)})
		v := new(big.Int).Add(b, big.NewInt(int64(r.Range(-3, 3))))
		return v.String()
	case 8: // anywhere in the unsigned 64-bit range
		return strconv.FormatUint(r.Next(), 10)
	case 9: // between 2^63 and 2^64
		return strconv.FormatUint(r.Next()|1<<63, 10)
	case 10: // wider than 64 bits
		n := r.Range(20, 40)
		b := make([]byte, n)
		for i := range b {
			b[i] = byte('0' + r.Intn(10))
		}
		if b[0] == '0' {
			b[0] = '1'
		}
		return string(b)
	case 11:
		return strings.Repeat("0", r.Range(1, 25)) + Pick(r, []string{"", "1", "7", "100", "18446744073709551615", "9223372036854775808"})
	case 12:
		return Pick(r, []string{"", "x", "1e3", "0x10", "0b1", "1a", "a1", "inf", "nan", "1_000", "0o7"})
	default: // characters the request-line pattern does not let through
		return Pick(r, []string{"-1", "+1", "-0", "-9223372036854775808", "-18446744073709551615", "%31", "1.5", "1 2", "１", "1,2"})
	}
}

// c16Query: the query string of a GET request line
func c16Query(r *RNG) string {
	n := r.Range(0, 4)
	parts := []string{}
	for i := 0; i < n; i++ {
		name := Pick(r, []string{"limit", "offset", "limit", "offset", "limit", "offset", "limits", "off", "", "LIMIT", "x", "set"})
		switch r.Intn(10) {
		case 0:
			parts = append(parts, name)
		case 1:
			parts = append(parts, name+"="+c16Num(r)+"="+c16Num(r))
		case 2:
			parts = append(parts, name+"==")
		default:
			parts = append(parts, name+"="+c16Num(r))
		}
	}
	sep := "&"
	if r.Chance(1, 12) {
		sep = Pick(r, []string{"&&", ";", "&amp;"})
	}
	return strings.Join(parts, sep)
}

// pieces that mean something to one of the layers text may travel through: printf verbs, JSON and HTTP syntax,
// action-list syntax, placeholder syntax, control bytes, non-ASCII and broken UTF-8
var c16Tokens = []string{"%", "%d", "%s", "%v", "%%", "%!", "%5.2f", "%[1]d", "%n", "%x", "% ", "%+v", "%\"", "\\", "\"", "'", "{", "}", "{}", "{q}", "[", "]",
	":", ",", "+", "(", ")", "<", ">", "&", "=", "?", "/", "\\n", "\\u0025", "\r\n", "\n", "\r", "\t", "\x00", "\x1b[31m", "\x7f", "é", "日本", "\xff", "\xc3", "\xe2\x80\xa8",
	" ", "  ", "a", "q", "x", "z", "0", "1", "HTTP/1.1 200 OK", "Content-Length: 0"}

// c16Text: n tokens; live = only what can be one line of a list fed to a real fzf and be looked at as text (valid UTF-8, no
// line ends, no control bytes)
func c16Text(r *RNG, n int, live bool) string {
	var b strings.Builder
	for i := 0; i < n; i++ {
		t := Pick(r, c16Tokens)
		if r.Chance(1, 3) {
			t = Pick(r, []string{"a", "q", "x", "z", " ", "%"})
		}
		if live {
			ok := utf8.ValidString(t)
			for _, c := range t {
				if c < 0x20 || c == 0x7f || c == 0x2028 {
					ok = false
				}
			}
			if !ok {
				continue
			}
		}
		b.WriteString(t)
	}
	return b.String()
}

// c16Items: a list (0..14 lines) and a selection (indices, each once, in order of selection)
func c16Items(r *RNG, live bool) ([]string, []int) {
	n := Pick(r, []int{0, 1, 1, 2, 3, 4, 5, 7, 9, 14})
	items := make([]string, n)
	for i := range items {
		items[i] = c16Text(r, r.Range(0, 5), live)
		if live && strings.TrimSpace(items[i]) == "" {
			items[i] = "line" + strconv.Itoa(i) + items[i]
		}
	}
	sel := []int{}
	if n > 0 && r.Chance(2, 3) {
		perm := make([]int, n)
		for i := range perm {
			perm[i] = i
		}
		for i := n - 1; i > 0; i-- {
			j := r.Intn(i + 1)
			perm[i], perm[j] = perm[j], perm[i]
		}
		sel = perm[:r.Range(0, n)]
	}
	return items, sel
}

// c16SpecialBody: action lists whose names / arguments carry the tokens above (most are refused by the parser,
// which quotes them in its message)
func c16SpecialBody(r *RNG, live bool) string {
	t := c16Text(r, r.Range(1, 4), live)
	switch r.Intn(9) {
	case 0:
		return "change-query(" + t + ")"
	case 1:
		return t
	case 2:
		return t + "(x)"
	case 3:
		return "up+" + t
	case 4:
		return "put(" + t + ")+" + t
	case 5:
		return "change-prompt:" + t
	case 6:
		return "change-query(a)+" + t
	case 7:
		return "pos(" + t + ")"
	default:
		return "put[" + t + "]"
	}
}

// the JSON text json.Marshal produces and json.Unmarshal returns for a string of arbitrary bytes: every byte that is not part
// of a valid UTF-8 sequence becomes U+FFFD
func c16JSONText(s string) string { return string([]rune(s)) }

// ---------- the real status dump behind the handler (hook layer) ----------

type c16Dump struct {
	Reading    bool      `json:"reading"`
	Progress   int       `json:"progress"`
	Query      string    `json:"query"`
	Position   int       `json:"position"`
	Sort       bool      `json:"sort"`
	TotalCount int       `json:"totalCount"`
	MatchCount int       `json:"matchCount"`
	Current    *FzfItem  `json:"current"`
	Matches    []FzfItem `json:"matches"`
	Selected   []FzfItem `json:"selected"`
}

// c16Window asks the spec (op 1610) for the window of `all` that limit/offset (high/low halves in params) select
func c16Window(c *Ctx, all []FzfItem, params Val) ([]FzfItem, bool) {
	idx := make([]string, len(all))
	for i := range all {
		idx[i] = strconv.Itoa(i)
	}
	w := c.Model.Call(1610, L(Strs(idx), params.L[0], params.L[1], params.L[2], params.L[3]))
	if !w.IsList {
		return nil, false
	}
	out := []FzfItem{}
	for _, x := range w.L {
		i, err := strconv.Atoi(x.Str())
		if err != nil || i < 0 || i >= len(all) {
			return nil, false
		}
		out = append(out, all[i])
	}
	return out, true
}

func c16SameItems(a, b []FzfItem) bool {
	if len(a) != len(b) {
		return false
	}
	for i := range a {
		if a[i] != b[i] {
			return false
		}
	}
	return true
}

func c16CheckDump(c *Ctx, cs c16Case, state string, params Val, viol func(string, interface{}, interface{})) {
	var d c16Dump
	dec := json.NewDecoder(strings.NewReader(state))
	dec.DisallowUnknownFields()
	if err := dec.Decode(&d); err != nil {
		viol("get_dump_window", map[string]interface{}{"state": lat([]byte(state)), "error": err.Error()}, "the JSON object of the status")
		return
	}
	all := make([]FzfItem, len(cs.Items))
	for i, it := range cs.Items {
		all[i] = FzfItem{Index: i, Text: c16JSONText(string(unlat(it)))}
	}
	sel := []FzfItem{}
	for _, i := range cs.Sel {
		sel = append(sel, all[i])
	}
	wantM, ok1 := c16Window(c, all, params)
	wantS, ok2 := c16Window(c, sel, params)
	var cur *FzfItem
	if cs.Cy >= 0 && cs.Cy < len(all) {
		cur = &all[cs.Cy]
	}
	okCur := (cur == nil) == (d.Current == nil) && (cur == nil || *cur == *d.Current)
	if !ok1 || !ok2 || !c16SameItems(d.Matches, wantM) || !c16SameItems(d.Selected, wantS) || !okCur ||
		d.TotalCount != len(all) || d.MatchCount != len(all) || d.Query != c16JSONText(string(unlat(cs.Query))) || d.Position != cs.Cy {
		viol("get_dump_window", map[string]interface{}{"state": lat([]byte(state))},
			map[string]interface{}{"matches": wantM, "selected": wantS, "current": cur, "totalCount": len(all), "matchCount": len(all),
				"query": c16JSONText(string(unlat(cs.Query))), "position": cs.Cy, "limit_offset_halves": params.String()})
	}
	c.Rep.Count(fmt.Sprintf("dump_window=%d/%d", len(wantM), len(all)))
}

// ---------- the real process behind a real socket ----------

// c16LiveSend opens one connection, writes the chunks (each its own Write), closes its sending side and reads the answer to
// the end (the server closes after one answer).
func c16LiveSend(port int, chunks [][]byte) ([]byte, error) {
	return c16SendTo("127.0.0.1:"+strconv.Itoa(port), chunks)
}

func c16SendTo(hostport string, chunks [][]byte) ([]byte, error) {
	var conn net.Conn
	var err error
	for try := 0; ; try++ {
		conn, err = net.DialTimeout("tcp", hostport, 3*time.Second)
		if err == nil || try >= 3 {
			break
		}
		time.Sleep(5 * time.Millisecond)
	}
	if err != nil {
		return nil, err
	}
	defer conn.Close()
	conn.SetDeadline(time.Now().Add(20 * time.Second))
	if tc, ok := conn.(*net.TCPConn); ok {
		tc.SetNoDelay(true)
	}
	for _, ch := range chunks {
		if len(ch) == 0 {
			continue
		}
		if _, err := conn.Write(ch); err != nil {
			break // the server may have answered and closed already; read what it said
		}
	}
	if tc, ok := conn.(*net.TCPConn); ok {
		tc.CloseWrite()
	}
	data, err := io.ReadAll(conn)
	if len(data) > 0 {
		err = nil
	}
	return data, err
}

type c16LiveViol struct {
	Name   string
	Req    int // index of the request it was seen at (-1: while installing the list)
	Impl   interface{}
	Expect interface{}
}

// reference request: everything there is
const c16RefGet = "GET /?limit=1000000 HTTP/1.1\r\nHost: localhost\r\n\r\n"

// c16LiveRun starts fzf with a harmless list, installs the list / query / selection of the case through POSTs, then sends the
// requests one after the other. It returns the first violation, or nil. only >= 0: send only that request.
func c16LiveRun(c *Ctx, cs c16Case, only int, calm time.Duration) (*c16LiveViol, map[string]int) {
	counts := map[string]int{}
	// the list fzf starts with is longer than any list of a case: its count can never be mistaken for the reloaded one
	place := make([]string, 20)
	for i := range place {
		place[i] = "placeholder " + strconv.Itoa(i)
	}
	s, err := StartSession(c, SessionOpts{Args: []string{"--multi", "--no-sort"}, Lines: place, Cols: 80, Rows: 24})
	if err != nil {
		counts["live_start_failed"]++
		fmt.Fprintln(os.Stderr, "C16 live: session did not start:", err)
		return nil, counts
	}
	defer s.Close()
	// patient: the answer did not come, give a dying process the time to go
	deadW := func(patient bool) (string, bool) {
		if cr := s.Crash(); cr != "" {
			return "fzf crashed: " + cr, true
		}
		if s.Exited() || (patient && s.waitExit(300*time.Millisecond)) {
			_, code, _ := s.Wait(2 * time.Second)
			if cr := s.Crash(); cr != "" {
				return "fzf crashed: " + cr, true
			}
			return "the fzf process is gone (exit status " + strconv.Itoa(code) + ") although no request asked it to exit", true
		}
		return "", false
	}
	dead := func() (string, bool) { return deadW(true) }
	wf := func(resp []byte) int {
		v := c.Model.Call(1603, Bytes(string(resp)))
		if v.IsList || v.I < 0 {
			return -1
		}
		return int(v.I)
	}
	// ref: the whole status through the reference GET; a violation when the answer is not well-formed or not the JSON object
	ref := func(at int) (*c16Dump, *c16LiveViol) {
		resp, err := c16LiveSend(s.Port, [][]byte{[]byte(c16RefGet)})
		for try := 0; try < 3 && len(resp) > 0 && wf(resp) == 503; try++ { // the terminal was busy for 2 s: ask again
			resp, err = c16LiveSend(s.Port, [][]byte{[]byte(c16RefGet)})
		}
		if len(resp) == 0 {
			if what, gone := dead(); gone {
				return nil, &c16LiveViol{"total", at, what, "fzf keeps running and answers"}
			}
			return nil, &c16LiveViol{"total", at, fmt.Sprint("no answer to a plain GET: ", err), "an HTTP answer"}
		}
		if wf(resp) != 200 {
			return nil, &c16LiveViol{"response_wf", at, map[string]interface{}{"request": c16RefGet, "response": lat(resp)},
				"200 with status line, headers, blank line, Content-Length = body length"}
		}
		_, body, _ := bytes.Cut(resp, []byte("\r\n\r\n"))
		var d c16Dump
		dec := json.NewDecoder(bytes.NewReader(body))
		dec.DisallowUnknownFields()
		if err := dec.Decode(&d); err != nil {
			return nil, &c16LiveViol{"get_dump_window", at, map[string]interface{}{"request": c16RefGet, "response": lat(resp), "error": err.Error()}, "the JSON object of the status"}
		}
		return &d, nil
	}
	same := func(a, b *c16Dump) bool {
		cur := (a.Current == nil) == (b.Current == nil) && (a.Current == nil || *a.Current == *b.Current)
		return cur && a.Query == b.Query && a.Position == b.Position && a.TotalCount == b.TotalCount && a.MatchCount == b.MatchCount &&
			c16SameItems(a.Matches, b.Matches) && c16SameItems(a.Selected, b.Selected)
	}
	// settle: the status once it has stopped changing (loading and matching are asynchronous)
	settle := func(at int, pred func(*c16Dump) bool) (*c16Dump, *c16LiveViol) {
		deadline := time.Now().Add(10 * time.Second)
		var prev *c16Dump
		for {
			d, v := ref(at)
			if v != nil {
				return nil, v
			}
			if !d.Reading && prev != nil && same(prev, d) && (pred == nil || pred(d)) {
				return d, nil
			}
			if time.Now().After(deadline) {
				return d, nil
			}
			prev = d
			time.Sleep(2*time.Millisecond + calm)
		}
	}

	// ---- install the state of the case ----
	items := make([]string, len(cs.Items))
	for i, it := range cs.Items {
		items[i] = string(unlat(it))
	}
	listFile := filepath.Join(s.Dir, "list")
	os.WriteFile(listFile, []byte(strings.Join(items, "\n")+"\n"), 0600)
	if len(items) == 0 {
		os.WriteFile(listFile, nil, 0600)
	}
	if err := s.PostSync("reload(cat list)"); err != nil {
		counts["live_setup_failed"]++
		return nil, counts
	}
	query := string(unlat(cs.Query))
	if query != "" {
		// the whole rest of the body is the argument: no closing character to worry about
		if err := s.Post("change-query:" + query); err != nil {
			counts["live_setup_failed"]++
			return nil, counts
		}
		if err := s.Sync(); err != nil {
			counts["live_setup_failed"]++
			return nil, counts
		}
	}
	st, v := settle(-1, func(d *c16Dump) bool { return d.TotalCount == len(items) })
	if v != nil {
		return v, counts
	}
	if st.MatchCount > 0 {
		for _, i := range cs.Sel {
			if err := s.PostSync("pos(" + strconv.Itoa(i%st.MatchCount+1) + ")+select"); err != nil {
				counts["live_setup_failed"]++
				return nil, counts
			}
		}
		if err := s.PostSync("pos(" + strconv.Itoa(cs.Cy%st.MatchCount+1) + ")"); err != nil {
			counts["live_setup_failed"]++
			return nil, counts
		}
	}
	time.Sleep(calm)
	before, v := settle(-1, nil)
	if v != nil {
		return v, counts
	}
	// the dump reflects the list it was given: every line, in order, byte for byte (no query: everything matches)
	if before.TotalCount != len(items) {
		return &c16LiveViol{"get_dump_window", -1, before, fmt.Sprintf("totalCount %d", len(items))}, counts
	}
	if query == "" {
		want := make([]FzfItem, len(items))
		for i := range items {
			want[i] = FzfItem{Index: i, Text: items[i]}
		}
		if !c16SameItems(before.Matches, want) || before.Query != "" {
			return &c16LiveViol{"get_dump_window", -1, before, map[string]interface{}{"matches": want, "query": ""}}, counts
		}
	} else if before.Query != query {
		return &c16LiveViol{"get_dump_window", -1, before, map[string]interface{}{"query": query}}, counts
	}
	counts["live_sessions"]++

	// ---- the requests ----
	for ri, req := range cs.Reqs {
		if only >= 0 && ri != only {
			continue
		}
		chunks := make([][]byte, len(req))
		stream := []byte{}
		for i, ch := range req {
			chunks[i] = unlat(ch)
			stream = append(stream, chunks[i]...)
		}
		small := len(req) == 1 && len(stream) <= 4096
		resp, err := c16LiveSend(s.Port, chunks)
		counts["live_requests"]++
		if what, gone := deadW(len(resp) == 0); gone {
			return &c16LiveViol{"total", ri, map[string]interface{}{"what": what, "response": lat(resp)}, "fzf keeps running and answers"}, counts
		}
		if len(resp) == 0 {
			// Only a request that the server has read completely before answering is certain to see the answer: with unread
			// bytes left behind, closing makes the kernel reset the connection and the answer may be lost on the way.
			if small {
				resp, err = c16LiveSend(s.Port, chunks)
				if len(resp) == 0 {
					if what, gone := dead(); gone {
						return &c16LiveViol{"total", ri, what, "fzf keeps running and answers"}, counts
					}
					return &c16LiveViol{"total", ri, fmt.Sprint("no answer (twice): ", err), "an HTTP answer"}, counts
				}
			} else {
				counts["live_answer_lost_unread_bytes"]++
			}
		}
		code := -1
		if len(resp) > 0 {
			code = wf(resp)
			if code < 0 {
				return &c16LiveViol{"response_wf", ri, map[string]interface{}{"response": lat(resp)}, "status line, headers, blank line, Content-Length = body length"}, counts
			}
		}
		counts[fmt.Sprintf("live_status=%d", code)]++
		isGet := bytes.HasPrefix(stream, []byte("GET"))
		if isGet && code == 200 {
			// the window of the list the request line asks for
			params := c.Model.Call(1609, Bytes(string(stream)))
			_, body, _ := bytes.Cut(resp, []byte("\r\n\r\n"))
			var d c16Dump
			dec := json.NewDecoder(bytes.NewReader(body))
			dec.DisallowUnknownFields()
			derr := dec.Decode(&d)
			bad := derr != nil || len(params.L) != 4
			var wantM, wantS []FzfItem
			if !bad {
				var ok1, ok2 bool
				wantM, ok1 = c16Window(c, before.Matches, params)
				wantS, ok2 = c16Window(c, before.Selected, params)
				d2 := d
				d2.Matches, d2.Selected = before.Matches, before.Selected
				bad = !ok1 || !ok2 || !c16SameItems(d.Matches, wantM) || !c16SameItems(d.Selected, wantS) || !same(&d2, before)
			}
			if bad {
				return &c16LiveViol{"get_dump_window", ri, map[string]interface{}{"response": lat(resp)},
					map[string]interface{}{"matches": wantM, "selected": wantS, "rest_as_in": before, "limit_offset_halves": params.String()}}, counts
			}
			counts["live_get_window_checked"]++
		}
		if isGet && code != 200 && code != 400 && code != 401 && code != 503 && code != -1 {
			return &c16LiveViol{"response_wf", ri, map[string]interface{}{"response": lat(resp)}, "status 200, 400, 401 or 503"}, counts
		}
		// GET never changes state; a refused request has no side effects
		posted := !isGet && (code == 200 || code == -1)
		if posted {
			if err := s.Sync(); err != nil {
				if what, gone := dead(); gone {
					return &c16LiveViol{"total", ri, what, "fzf keeps running and answers"}, counts
				}
			}
			time.Sleep(calm)
			before, v = settle(ri, nil)
			if v != nil {
				return v, counts
			}
			continue
		}
		time.Sleep(calm)
		after, v := ref(ri)
		if v != nil {
			return v, counts
		}
		if !same(before, after) {
			name := "malformed_rejected"
			if isGet {
				name = "get_no_actions"
			}
			return &c16LiveViol{name, ri, map[string]interface{}{"response": lat(resp), "status_after": after}, map[string]interface{}{"status_unchanged": before}}, counts
		}
		counts["live_no_side_effect_checked"]++
	}
	if what, gone := dead(); gone {
		return &c16LiveViol{"total", len(cs.Reqs) - 1, what, "fzf keeps running and answers"}, counts
	}
	return nil, counts
}

// c16CheckLive: a violation counts only when it shows again in a fresh process that is sent nothing but the request in question
// (with pauses around every observation); the replay then holds that one request.
func c16CheckLive(c *Ctx, cs c16Case) {
	rep := c.Rep
	rep.mu.Lock()
	rep.ImplTraces++
	rep.SpecChecks++
	rep.mu.Unlock()
	canon, _ := json.Marshal(cs)
	v, counts := c16LiveRun(c, cs, -1, 0)
	for k, n := range counts {
		rep.CountN(k, n)
	}
	rep.Eval(string(canon), counts["live_sessions"] > 0)
	if v == nil {
		return
	}
	small := cs
	if v.Req >= 0 && v.Req < len(cs.Reqs) {
		small.Reqs = [][]string{cs.Reqs[v.Req]}
	} else {
		small.Reqs = nil
	}
	for try := 0; try < 2; try++ {
		v2, _ := c16LiveRun(c, small, -1, 60*time.Millisecond)
		if v2 != nil {
			rep.Disagreement(Disagreement{Kind: "spec", Name: v2.Name, Input: small, Impl: v2.Impl, Expect: v2.Expect})
			return
		}
	}
	// seen once in the long session, not in two fresh ones: the whole session, replayed once more
	if v3, _ := c16LiveRun(c, cs, -1, 60*time.Millisecond); v3 != nil {
		rep.Disagreement(Disagreement{Kind: "spec", Name: v3.Name, Input: cs, Impl: v3.Impl, Expect: v3.Expect})
		return
	}
	rep.Count("live_observation_not_reproduced")
}

// live bodies: nothing that ends fzf or runs a command
var c16LiveBodies = []string{"up", "down", "down+up", "toggle", "toggle+down", "toggle-all", "select-all", "deselect-all", "first", "last", "pos(2)", "pos(x)",
	"change-query(a)", "change-query(q)", "clear-query", "change-prompt(>)", "up\r\n", "\r\nup\r\n", "", "\r\n", "+", "up+", "unknown-action", "put(", "UP", "up up", " up ",
	"ignore", "toggle-sort", "toggle-all+down+down"}

func c16GenLive(r *RNG) c16Case {
	cs := c16Case{Kind: "live"}
	items, sel := c16Items(r, true)
	for _, it := range items {
		cs.Items = append(cs.Items, lat([]byte(it)))
	}
	cs.Sel = sel
	if len(items) > 0 {
		cs.Cy = r.Intn(len(items))
	}
	if r.Chance(1, 4) {
		cs.Query = lat([]byte(c16Text(r, r.Range(1, 2), true)))
	}
	n := r.Range(5, 10)
	for i := 0; i < n; i++ {
		var s []byte
		switch k := r.Intn(20); {
		case k < 8: // GET with generated parameters
			s = []byte("GET /?" + c16Query(r) + " HTTP/1.1\r\nHost: localhost\r\n\r\n")
		case k < 9:
			s = c16Big(r, "")
		default:
			s = c16RequestWith(r, "", func(r *RNG) string {
				if r.Chance(1, 3) {
					return c16SpecialBody(r, true)
				}
				return Pick(r, c16LiveBodies)
			})
			if r.Chance(1, 4) {
				s = c16Mutate(r, s)
			}
		}
		if r.Chance(1, 6) && len(s) > 1 {
			p := r.Range(1, len(s)-1)
			cs.Reqs = append(cs.Reqs, []string{lat(s[:p]), lat(s[p:])})
		} else {
			cs.Reqs = append(cs.Reqs, []string{lat(s)})
		}
	}
	return cs
}
