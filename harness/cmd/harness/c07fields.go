package main

// C07 — "--accept-nth prints exactly the selected fields": delimiters, field index expressions, templates.
//   * c07DelimOf classifies a --delimiter argument the way the man page describes it (a regular expression; one
//     that is a plain string is that string) into what OutputSpec.v can read: AWK-style, a literal string, or a
//     set of bytes '[..]' / runs of them '[..]+'.
//   * generators: delimiter-aware records (empty fields, consecutive and trailing delimiters, fragments of a
//     multi-byte delimiter next to it, blanks on either side of a delimiter), random field index expression lists and
//     templates, the non-interactive -1/-0 accept path in bulk, and pty sessions that accept many records at once.
//   * the spec check is op 705 (OutputSpec.accept_text inside session_result) on the implementation's stdout.

import (
	"regexp"
	"strconv"
	"strings"
	"unicode/utf8"
)

type c07DelimInfo struct {
	Kind int    // 0 AWK-style, 1 literal string, 2 set of bytes (one of them, or a maximal run), 3 not covered
	Sep  string // the literal / the bytes of the set
	Run  bool
}

var c07SetRe = regexp.MustCompile(`^\[([^\]\[\\^-]+)\](\+?)$`)

func c07DelimOf(opt string) c07DelimInfo {
	if opt == "" {
		return c07DelimInfo{}
	}
	s := strings.ReplaceAll(opt, "\\t", "\t")
	if utf8.RuneCountInString(s) == 1 || !strings.ContainsAny(s, "\\.+*?()|[]{}^$") {
		return c07DelimInfo{Kind: 1, Sep: s}
	}
	if m := c07SetRe.FindStringSubmatch(s); m != nil && c07ASCII(m[1]) {
		return c07DelimInfo{Kind: 2, Sep: m[1], Run: m[2] == "+"}
	}
	return c07DelimInfo{Kind: 3}
}

// the delimiter for the model (OutputModel.delim: AWK or a string)
func (d c07DelimInfo) modelVal() Val {
	if d.Kind == 1 {
		return L(Bytes(d.Sep))
	}
	return L()
}

// the delimiter for the spec (OutputSpec.field_delim)
func (d c07DelimInfo) specVal() Val {
	switch d.Kind {
	case 1:
		return L(I(0), Bytes(d.Sep))
	case 2:
		return L(I(1), Bytes(d.Sep), B(d.Run))
	}
	return L()
}

var c07DelimsRich = []string{",", ",", ":", ", ", "=>", "ab", "aa", "::", "\\t", "│", " ", "-", "/", "[,;]", "[,;]+", "[ ,]+", "[:]"}

// what may stand between two fields of a generated record
func (d c07DelimInfo) separators() []string {
	switch d.Kind {
	case 1:
		return []string{d.Sep}
	case 2:
		out := []string{}
		for i := 0; i < len(d.Sep); i++ {
			out = append(out, d.Sep[i:i+1])
		}
		return out
	}
	return []string{" ", "  ", "\t"}
}

// pieces that look like part of the delimiter without being one: proper prefixes and suffixes, single runes
func (d c07DelimInfo) fragments() []string {
	if d.Kind != 1 {
		return nil
	}
	out := []string{}
	for i := range d.Sep {
		if i > 0 {
			out = append(out, d.Sep[:i], d.Sep[i:])
		}
	}
	for _, ru := range d.Sep {
		if len(string(ru)) < len(d.Sep) {
			out = append(out, string(ru))
		}
	}
	return out
}

var c07Words = []string{"a", "b", "c", "ab", "x", "B", "é", "日本", "😀", "-", "1", "q", ",", ":", ";", ">", "=", "a b", "'", "\""}
var c07Blanks = []string{" ", "  ", "\t", " \t"}

// a record made of fields around the given delimiter
func c07GenDelimRecord(r *RNG, d c07DelimInfo, multiline, ansi bool) string {
	seps := d.separators()
	frags := d.fragments()
	nf := Pick(r, []int{0, 1, 1, 2, 2, 3, 3, 3, 4, 5, 7})
	var b strings.Builder
	if r.Chance(1, 6) {
		b.WriteString(Pick(r, c07Blanks))
	}
	for i := 0; i < nf; i++ {
		if ansi && r.Chance(1, 4) {
			b.WriteString(Pick(r, c07Ansi))
		}
		switch r.Intn(12) {
		case 0, 1, 2: // an empty field
		case 3:
			b.WriteString(Pick(r, c07Blanks))
		case 4, 5:
			if len(frags) > 0 {
				if r.Bool() {
					b.WriteString(Pick(r, c07Words))
				}
				b.WriteString(Pick(r, frags))
				break
			}
			fallthrough
		default:
			if r.Chance(1, 5) {
				b.WriteString(Pick(r, c07Blanks))
			}
			b.WriteString(Pick(r, c07Words))
			if multiline && r.Chance(1, 6) {
				b.WriteString("\n")
			}
			if r.Chance(1, 3) {
				b.WriteString(Pick(r, c07Words))
			}
			if r.Chance(1, 4) {
				b.WriteString(Pick(r, c07Blanks))
			}
		}
		if ansi && r.Chance(1, 5) {
			b.WriteString(Pick(r, c07Ansi))
		}
		if i < nf-1 || r.Chance(2, 5) {
			b.WriteString(Pick(r, seps))
			for r.Chance(1, 5) {
				b.WriteString(Pick(r, seps))
			}
		}
	}
	if r.Chance(1, 5) {
		b.WriteString(Pick(r, c07Blanks))
		if r.Chance(1, 3) {
			b.WriteString(Pick(r, seps))
		}
	}
	return b.String()
}

func c07GenDelimRecords(r *RNG, n int, d c07DelimInfo, multiline, ansi, distinct bool) []bstr {
	out := []bstr{}
	seen := map[string]bool{}
	for len(out) < n {
		s := c07GenDelimRecord(r, d, multiline, ansi)
		if distinct {
			if seen[s] {
				s += strconv.Itoa(len(out))
			}
			seen[s] = true
		}
		out = append(out, bstr(s))
	}
	return out
}

// one field index expression as a pair (0 = bound left out; b == e is the single number)
func c07GenRange(r *RNG) [2]int {
	nz := func() int {
		n := r.Range(1, 5)
		if r.Chance(1, 3) {
			n = -r.Range(1, 4)
		}
		return n
	}
	switch r.Intn(9) {
	case 0, 1, 2:
		n := nz()
		return [2]int{n, n}
	case 3:
		return [2]int{0, 0}
	case 4:
		return [2]int{nz(), 0}
	case 5:
		return [2]int{0, nz()}
	}
	b, e := nz(), nz()
	if b < 0 && e > 0 { // "-2..3" is not a field index expression
		b, e = e, b
	}
	return [2]int{b, e}
}

func c07GenRanges(r *RNG) [][2]int {
	n := Pick(r, []int{1, 1, 1, 2, 2, 3})
	out := make([][2]int, n)
	for i := range out {
		out[i] = c07GenRange(r)
	}
	return out
}

var c07TemplateLits = []string{" ", "-", ":", "<", ">", ",", "x=", " | ", "a", "é", "\t", ", "}

func c07GenNth(r *RNG, d c07DelimInfo) *c07Nth {
	if r.Chance(3, 5) {
		return &c07Nth{Ranges: c07GenRanges(r)}
	}
	lits := c07TemplateLits
	if d.Kind == 1 {
		lits = append(append([]string{}, lits...), d.Sep, d.Sep)
	}
	np := r.Range(1, 5)
	parts := []c07Part{}
	holder := false
	for i := 0; i < np; i++ {
		switch {
		case r.Chance(1, 2) || (i == np-1 && !holder):
			parts = append(parts, c07Part{Ranges: c07GenRanges(r)})
			holder = true
		case r.Chance(1, 4):
			parts = append(parts, c07Part{Index: true})
			holder = true
		default:
			parts = append(parts, c07Part{Str: Pick(r, lits)})
		}
	}
	// parts without any content do not survive the JSON round trip: drop them
	out := parts[:0]
	for _, p := range parts {
		if p.Index || p.Ranges != nil || p.Str != "" {
			out = append(out, p)
		}
	}
	return &c07Nth{Parts: out}
}

// the -1 / -0 path of core.go (no terminal): one record (sometimes none), --accept-nth always
func c07GenAccept(r *RNG) *c07Sess {
	cs := &c07Sess{Select1: true, Exit0: r.Chance(1, 3), Read0: r.Chance(1, 5), Print0: r.Chance(1, 3), PrintQuery: r.Chance(1, 4),
		Ansi: r.Chance(1, 5), Expect: r.Chance(1, 5), Multi: Pick(r, []int{0, 0, -1}), Final: "accept", Steps: []c07Step{}}
	if !r.Chance(1, 6) {
		cs.Delim = Pick(r, c07DelimsRich)
	}
	d := c07DelimOf(cs.Delim)
	cs.AcceptNth = c07GenNth(r, d)
	if r.Chance(1, 5) {
		cs.WithNth = Pick(r, c07WithNth)
	}
	n := 1
	if r.Chance(1, 12) {
		n, cs.Exit0 = 0, true
	}
	if d.Kind == 0 && r.Bool() {
		cs.Records = c07GenRecords(r, n, cs.Read0, cs.Ansi, false, true)
	} else {
		cs.Records = c07GenDelimRecords(r, n, d, cs.Read0, cs.Ansi, true)
	}
	return cs
}

// a pty session that accepts many records at once (select-all / toggle-all, then accept): Terminal.output
func c07GenBulkSess(r *RNG) *c07Sess {
	cs := &c07Sess{Read0: r.Chance(1, 5), Print0: r.Chance(1, 3), PrintQuery: r.Chance(1, 4), Ansi: r.Chance(1, 5), Multi: -1, Final: "accept"}
	if !r.Chance(1, 6) {
		cs.Delim = Pick(r, c07DelimsRich)
	}
	d := c07DelimOf(cs.Delim)
	cs.AcceptNth = c07GenNth(r, d)
	if r.Chance(1, 6) {
		cs.WithNth = Pick(r, c07WithNth)
	}
	cs.Records = c07GenDelimRecords(r, r.Range(8, 20), d, cs.Read0, cs.Ansi, false)
	cs.Steps = []c07Step{{Act: Pick(r, []string{"select-all", "select-all", "toggle-all"})}}
	if r.Chance(1, 3) {
		cs.Steps = append([]c07Step{{Act: "last"}, {Act: "toggle"}}, cs.Steps...) // the selection order differs from the list order
	}
	if r.Chance(1, 4) {
		cs.Final = "enter"
	}
	return cs
}
