package main

// C12, how the finder LOOKS at a line must not change what a placeholder stands for.
//
// The text of an item is the input line; with --ansi it is the line without its escape sequences (Coq spec
// item_text = AnsiSpec.strip_spec under --ansi, op 1223).  Which fields are SHOWN (--with-nth), whether colours are
// used (--no-color, --color=bw, $NO_COLOR, a 16 / 256 colour theme) and every other display option (--tac, --wrap,
// --tabstop, --nth, --layout ...) decide what the list looks like, never what {} {N} {+} {f} evaluate back to.
//
//   kinds live and term carry a View: --ansi, --with-nth, further display options, environment entries.  The items of
//   such a case are input lines built from hostile text AND complete escape sequences (SGR incl. 256 / 24-bit colours,
//   erase-in-line, OSC 8 links, charset selection, shift in / out); the expected words are the template read over
//   item_text of the cursor / selected lines:
//     live : the fzf binary on a pty with those options (live_roundtrip, live_file_holds_own_values as before)
//     term : hook VerifTerminalExpandView = the reader's item construction (Item.text / origText as core.go builds them),
//            buildPlusList, Terminal.replacePlaceholder on a Terminal with t.ansi and the theme's Colored set
//            corr : == extracted model view_terminal_expand (op 1224)
//            spec : as for kind term, over item_text of the lines

import (
	"fmt"
	"strings"

	fzf "github.com/junegunn/fzf/src"
)

type c12View struct {
	Ansi    bool     `json:"ansi,omitempty"`     // --ansi
	WithNth string   `json:"with_nth,omitempty"` // --with-nth EXPR ("" = option absent)
	Opts    []string `json:"opts,omitempty"`     // display options that must not change what a placeholder stands for
	Env     []string `json:"env,omitempty"`      // environment entries of the same kind (NO_COLOR=1)
}

// options (and environment entries, "env:" prefix) that switch colours off or choose another theme
var c12ViewColour = []string{"--no-color", "--no-color", "--color=bw", "--color=bw", "env:NO_COLOR=1", "env:NO_COLOR=1", "--color=bw,hl:-1",
	"--color=dark", "--color=light", "--color=16", "--color=dark,fg:-1", "--color=fg:red,hl:blue", "--color=bw,fg:-1", "--no-bold", "--black",
	"env:NO_COLOR=", "env:TERM=dumb", "env:TERM=xterm"}

// other display options
var c12ViewOther = []string{"--tac", "--no-sort", "--tabstop=3", "--wrap", "--no-hscroll", "--keep-right", "--highlight-line",
	"--layout=reverse", "--layout=reverse-list", "--border", "--gap", "--track", "--cycle", "--info=inline", "--info=hidden", "--scheme=path",
	"--tiebreak=index", "-i", "+i", "--literal", "--exact", "--no-multi-line", "--ellipsis=~", "--hscroll-off=0", "--margin=1",
	"--padding=1", "--pointer=>", "--marker=*", "--no-unicode", "--no-mouse", "--height=10", "--height=~10", "--header=h", "--nth=1", "--nth=2..",
	"--nth=-1", "--scrollbar=|", "--no-scrollbar", "--separator=-", "--no-separator"}

var c12ViewNth = []string{"2..", "2..", "1", "-1", "..", "1,3", "2,1", "..2", "1..2", "2", "-2..", "3..", "1,1"}

// complete control sequences (AnsiSpec grammar): SGR, erase in line, OSC 8 hyperlinks, charset selection, SO / SI
var c12ViewSeqs = []string{"\x1b[31m", "\x1b[m", "\x1b[m", "\x1b[0m", "\x1b[1;32m", "\x1b[38;5;208m", "\x1b[48;2;10;20;30m", "\x1b[4m", "\x1b[7;1m",
	"\x1b[39;49m", "\x1b[K", "\x1b[0K", "\x1b]8;;http://example.com/a\x1b\\", "\x1b]8;;\x1b\\", "\x1b]8;;file:///tmp/x\x07", "\x1b(B", "\x0e", "\x0f",
	"\x1b[3;4:3;58:2::1:2:3m", "\x1b[?25l", "\x1b[1A", "\x1b[38;5;1;48;5;2;1;3;4;5;7;9m"}

// a line: the text with complete control sequences put between its characters (never inside a multi-byte character)
func c12Decorate(r *RNG, text string) string {
	runes := []rune(text)
	k := Pick(r, []int{1, 1, 2, 2, 3, 4})
	cuts := make([]int, k)
	for i := range cuts {
		switch r.Intn(4) {
		case 0:
			cuts[i] = 0
		case 1:
			cuts[i] = len(runes)
		default:
			cuts[i] = r.Intn(len(runes) + 1)
		}
	}
	var b strings.Builder
	for p := 0; p <= len(runes); p++ {
		for _, c := range cuts {
			if c == p {
				b.WriteString(Pick(r, c12ViewSeqs))
			}
		}
		if p < len(runes) {
			b.WriteRune(runes[p])
		}
	}
	return b.String()
}

func c12GenView(r *RNG) *c12View {
	v := &c12View{Ansi: r.Chance(3, 4)}
	if r.Chance(3, 5) {
		v.WithNth = Pick(r, c12ViewNth)
	}
	add := func(o string) {
		if strings.HasPrefix(o, "env:") {
			v.Env = append(v.Env, o[4:])
		} else {
			v.Opts = append(v.Opts, o)
		}
	}
	if r.Chance(2, 3) {
		add(Pick(r, c12ViewColour))
	}
	for i := Pick(r, []int{0, 0, 1, 1, 2, 3}); i > 0; i-- {
		add(Pick(r, c12ViewOther))
	}
	if r.Chance(1, 8) { // a colour option after the others: the last one wins
		add(Pick(r, c12ViewColour))
	}
	return v
}

// lines of a case with a view: fields (so that --with-nth hides some), control sequences in hidden and shown fields
func c12ViewItems(r *RNG, cs *c12Case, multiline bool) {
	sep := " "
	if cs.Delim != nil {
		sep = *cs.Delim
	}
	for i := range cs.Items {
		t := cs.Items[i].Text
		if r.Chance(1, 2) { // more fields
			k := r.Range(1, 3)
			for j := 0; j < k; j++ {
				t += sep + c12Text(r, -1, 4)
			}
		}
		if !multiline {
			t = strings.ReplaceAll(t, "\n", " ")
		}
		if r.Chance(5, 6) {
			t = c12Decorate(r, t)
		}
		if t == "" {
			t = "\x1b[31me\x1b[m"
		}
		cs.Items[i].Text = t
	}
}

func c12GenLiveView(r *RNG, n int) c12Case {
	cs := c12GenLive(r, n)
	cs.View = c12GenView(r)
	multiline := false
	for _, it := range cs.Items {
		multiline = multiline || strings.Contains(it.Text, "\n")
	}
	c12ViewItems(r, &cs, multiline)
	return cs
}

func c12GenTermView(r *RNG, n int) c12Case {
	cs := c12GenTerm(r, n)
	cs.View = c12GenView(r)
	cs.View.Env = nil
	opts := []string{}
	for _, o := range cs.View.Opts { // the hook knows one display property: whether the theme is coloured
		if o == "--no-color" || o == "--color=bw" {
			opts = append(opts, o)
		}
	}
	cs.View.Opts = opts
	if len(opts) == 0 && r.Bool() {
		cs.View.Opts = []string{"--no-color"}
	}
	c12ViewItems(r, &cs, true)
	return cs
}

func (v *c12View) coloured() bool {
	if v == nil {
		return true
	}
	col := true
	for _, o := range v.Opts {
		switch {
		case o == "--no-color" || strings.HasPrefix(o, "--color=bw"):
			col = false
		case strings.HasPrefix(o, "--color="):
			col = true
		}
	}
	return col
}

// viewTexts: what the items of a case are to a placeholder: the input lines, under --ansi without their control
// sequences (Coq spec item_text, op 1223).  nil: the case has no view, the lines themselves.
func (s *c12State) viewTexts(cs c12Case) []string {
	if cs.View == nil {
		return nil
	}
	out := make([]string, len(cs.Items))
	for i, it := range cs.Items {
		out[i] = s.c.Model.Call(1223, L(B(cs.View.Ansi), Bytes(it.Text))).Str()
	}
	return out
}

func (s *c12State) countView(cs c12Case, prefix string) {
	v := cs.View
	if v == nil {
		return
	}
	rep := s.c.Rep
	rep.Count(prefix + ":with_view")
	seq := false
	for _, it := range cs.Items {
		seq = seq || strings.ContainsAny(it.Text, "\x1b\x0e\x0f\x08")
	}
	k := prefix + ":view"
	if v.Ansi {
		k += " --ansi"
	}
	if v.WithNth != "" {
		k += " --with-nth"
	}
	if !v.coloured() || len(v.Env) > 0 {
		k += " colours-off-or-env"
	}
	if seq {
		k += " (lines with control sequences)"
	}
	rep.Count(k)
}

// the text SHOWN for a --with-nth item in kind term (no placeholder may read it)
func c12ShownText(i int) string { return fmt.Sprintf("<the fields shown of line %d>", i) }

// kind term with a view: the items as the reader (core.go) leaves them.  Without --with-nth: item.text = the line, under
// --ansi what extractColor keeps of it, no origText.  With --with-nth: item.text = the fields shown, origText = the line.
func c12ViewHookItems(cs c12Case) []fzf.VerifViewItem {
	out := make([]fzf.VerifViewItem, len(cs.Items))
	for i, it := range cs.Items {
		line := it.Text
		switch {
		case cs.View.WithNth != "":
			out[i] = fzf.VerifViewItem{Index: it.Idx, Text: c12ShownText(i), Orig: &line}
		case cs.View.Ansi:
			kept, _, _, _ := fzf.VerifExtractColor(line, nil)
			out[i] = fzf.VerifViewItem{Index: it.Idx, Text: kept}
		default:
			out[i] = fzf.VerifViewItem{Index: it.Idx, Text: line}
		}
	}
	return out
}

// the same lines for the model (op 1224): [ordinal, bytes, [] | [text shown]]
func c12ViewLines(cs c12Case) []Val {
	out := make([]Val, len(cs.Items))
	for i, it := range cs.Items {
		shown := L()
		if cs.View.WithNth != "" {
			shown = L(Bytes(c12ShownText(i)))
		}
		out[i] = L(I(int(it.Idx)), Bytes(it.Text), shown)
	}
	return out
}
