package main

// C01 — filtering is exact.
//   spec  : sat_query (extracted SPEC) evaluated on what the implementation kept / dropped:
//           (a) fzf --filter as a process: stdout vs filter (sat_query) of stdin (multiset; list order under +s; exit status),
//           (b) Pattern.MatchItem through the hook: matched <-> sat_query, line by line
//   corr  : implementation vs extracted MODEL (parse_terms, build_pattern, match_item: offsets, score, positions; filter verdicts)
//           and parseTerms / BuildPattern vs the documented grammar (groups over tokens): a difference there is a broken
//           correspondence that makes `check` search for a line on which the verdicts differ.
//   Every disagreement is reduced (one line, fewer query tokens / characters) before it is reported.

import (
	"encoding/json"
	"fmt"
	"os"
	"sort"
	"strings"
	"unicode"
	"unicode/utf8"

	fzf "github.com/junegunn/fzf/src"
	"github.com/junegunn/fzf/src/algo"
	"github.com/junegunn/fzf/src/util"
)

type c01Opts struct {
	Fuzzy     bool `json:"fuzzy"`     // false: --exact
	V2        bool `json:"v2"`        // --algo
	Extended  bool `json:"extended"`  // false: +x
	Case      int  `json:"case"`      // 0 smart 1 -i 2 +i
	Normalize bool `json:"normalize"` // false: --literal
	Forward   bool `json:"forward"`
	Scheme    int  `json:"scheme"` // 0 default 1 path 2 history
	WithPos   bool `json:"withpos"`
	NilSlab   bool `json:"nilslab"`
	NoSort    bool `json:"nosort"`          // process level: +s
	Tiebreak  string `json:"tiebreak,omitempty"` // process level: --tiebreak=...
}

type c01Case struct {
	Mode  string   `json:"mode"` // "api" (hooks) | "proc" (fzf --filter) | "raw" (parseTerms on the string as is)
	Opts  c01Opts  `json:"opts"`
	Query string   `json:"query"`
	Lines []string `json:"lines"`
}

func c01Table(strs ...[]string) Val {
	seen := map[rune]bool{}
	rows := []Val{}
	add := func(r rune) {
		if r < 128 || seen[r] {
			return
		}
		seen[r] = true
		sp := 0
		if unicode.IsSpace(r) {
			sp = 1
		}
		rows = append(rows, L(I(int(r)), I(int(unicode.To(unicode.LowerCase, r))), I(algo.VerifCharClassOfNonAscii(r)),
			I(int(algo.VerifNormalizeRune(r))), I(sp)))
	}
	for _, ss := range strs {
		for _, s := range ss {
			for _, r := range s {
				add(r)
				add(unicode.To(unicode.LowerCase, r))
			}
		}
	}
	sort.Slice(rows, func(i, j int) bool { return rows[i].L[0].I < rows[j].L[0].I })
	return L(rows...)
}

func runesVal(s string) Val { return Runes([]rune(s)) }
func runesVals(ss []string) Val {
	vs := make([]Val, len(ss))
	for i, s := range ss {
		vs[i] = runesVal(s)
	}
	return L(vs...)
}

func (o c01Opts) val() Val {
	cap := 100 * 1024
	if o.NilSlab {
		cap = -1
	}
	return L(B(o.Fuzzy), B(o.V2), B(o.Extended), I(o.Case), B(o.Normalize), B(o.Forward), I(cap))
}

func termsVal(sets [][]fzf.VerifTerm) Val {
	out := []Val{}
	for _, set := range sets {
		ts := []Val{}
		for _, t := range set {
			ts = append(ts, L(I(t.Typ), B(t.Inv), Runes(t.Text), B(t.CaseSensitive), B(t.Normalize)))
		}
		out = append(out, L(ts...))
	}
	return L(out...)
}

var c01Cases = []fzf.Case{fzf.CaseSmart, fzf.CaseIgnore, fzf.CaseRespect}

func c01Inc(rep *Report, p *int) { rep.mu.Lock(); *p++; rep.mu.Unlock() }

// ---- shrinking: a failing case is reduced (one line, then query tokens, then query characters) before it is reported ----

func c01Scratch(c *Ctx) *Ctx {
	tmp := *c
	tmp.Rep = &Report{Distribution: map[string]int{}, KnownSeen: map[string]string{}, distinct: map[string]bool{},
		Samples: []interface{}{}, Disagree: []Disagreement{}, Extra: map[string]interface{}{}}
	return &tmp
}

// first disagreement of the given kind when the case is run again (nil: the case passes)
func c01Rerun(c *Ctx, cs c01Case, kind string) *Disagreement {
	tmp := c01Scratch(c)
	if cs.Mode == "proc" {
		c01Proc(tmp, cs)
	} else {
		c01Api(tmp, cs)
	}
	for i := range tmp.Rep.Disagree {
		if tmp.Rep.Disagree[i].Kind == kind {
			return &tmp.Rep.Disagree[i]
		}
	}
	return nil
}

func c01Shrink(c *Ctx, cs c01Case, kind string) c01Case {
	if len(cs.Lines) > 1 {
		for _, l := range cs.Lines {
			one := cs
			one.Lines = []string{l}
			if c01Rerun(c, one, kind) != nil {
				cs = one
				break
			}
		}
	}
	budget := 200
	try := func(q string) bool {
		if q == cs.Query || budget <= 0 {
			return false
		}
		budget--
		t := cs
		t.Query = q
		if c01Rerun(c, t, kind) != nil {
			cs = t
			return true
		}
		return false
	}
	for changed := true; changed; {
		changed = false
		toks := strings.Split(cs.Query, " ")
		for i := range toks {
			rest := append(append([]string{}, toks[:i]...), toks[i+1:]...)
			if try(strings.Join(rest, " ")) {
				changed = true
				break
			}
		}
	}
	for changed := true; changed; {
		changed = false
		rs := []rune(cs.Query)
		for i := range rs {
			if try(string(rs[:i]) + string(rs[i+1:])) {
				changed = true
				break
			}
		}
	}
	if len(cs.Lines) == 1 {
		for changed := true; changed && budget > 0; {
			changed = false
			rs := []rune(cs.Lines[0])
			for i := range rs {
				budget--
				t := cs
				t.Lines = []string{string(rs[:i]) + string(rs[i+1:])}
				if c01Rerun(c, t, kind) != nil {
					cs = t
					changed = true
					break
				}
			}
		}
	}
	return cs
}

func c01Report(c *Ctx, cs c01Case, d Disagreement) {
	if c.Rep.Property != "" && c.Replay == "" && c.Rep.NDisagree() < 50 { // a real report (not a shrinking run): reduce first
		small := c01Shrink(c, cs, d.Kind)
		if d2 := c01Rerun(c, small, d.Kind); d2 != nil {
			d = *d2
		}
	}
	c.Rep.Disagreement(d)
}

func c01Key(cs c01Case) string { b, _ := json.Marshal(cs); return string(b) }

func hasTab(s string) bool { return strings.ContainsRune(s, '\t') }

// ---------- in-process (hooks) ----------

// caller has set the scoring scheme (cs.Opts.Scheme) for this process phase
func c01Api(c *Ctx, cs c01Case) {
	rep := c.Rep
	o := cs.Opts
	tbl := c01Table([]string{cs.Query}, cs.Lines)
	inDomain := !hasTab(cs.Query)
	defer func() {
		if e := recover(); e != nil {
			c01Report(c, cs, Disagreement{Kind: "spec", Name: "no_crash (BuildPattern/MatchItem)", Input: cs, Impl: fmt.Sprint("panic: ", e), Expect: "an answer"})
		}
	}()
	if cs.Mode == "raw" {
		// parseTerms on the string as given (leading / trailing blanks included)
		sets := fzf.VerifParseTerms(o.Fuzzy, c01Cases[o.Case], o.Normalize, cs.Query)
		impl := termsVal(sets)
		c01Inc(rep, &rep.ImplTraces)
		rep.Eval(c01Key(cs), len(sets) > 0)
		rep.Count("raw_parse")
		mv := c.Model.Call(101, L(o.val(), tbl, runesVal(cs.Query)))
		if !mv.Equal(impl) {
			c01Report(c, cs, Disagreement{Kind: "corr", Name: "corr:C01.parse_terms", Input: cs, Impl: impl.String(), Expect: mv.String()})
		}
		if inDomain {
			c01Inc(rep, &rep.SpecChecks)
			sv := c.Model.Call(102, L(o.val(), tbl, runesVal(cs.Query)))
			if !sv.Equal(impl) {
				c01Report(c, cs, Disagreement{Kind: "corr", Name: "corr:C01.parse_meets_grammar (parseTerms vs the documented grammar)", Input: cs, Impl: impl.String(), Expect: sv.String()})
			}
		}
		return
	}
	vp := fzf.VerifBuildPattern(o.Fuzzy, o.V2, o.Extended, c01Cases[o.Case], o.Normalize, o.Forward, o.WithPos, []rune(cs.Query))
	pcs, pnm, ptext, sets := vp.Info()
	implPat := L(B(pcs), B(pnm), Runes(ptext), termsVal(sets))
	mp := c.Model.Call(106, L(o.val(), tbl, runesVal(cs.Query)))
	same := mp.Equal(implPat)
	if same == false && o.Extended && len(mp.L) == 4 && len(implPat.L) == 4 {
		// caseSensitive / normalize of the Pattern are unused in extended mode; compare text and term sets
		same = mp.L[2].Equal(implPat.L[2]) && mp.L[3].Equal(implPat.L[3])
	}
	if !same {
		c01Report(c, cs, Disagreement{Kind: "corr", Name: "corr:C01.build_pattern", Input: cs, Impl: implPat.String(), Expect: mp.String()})
	}
	if inDomain && o.Extended {
		c01Inc(rep, &rep.SpecChecks)
		sv := c.Model.Call(107, L(o.val(), tbl, runesVal(cs.Query)))
		if !sv.Equal(implPat.L[3]) {
			c01Report(c, cs, Disagreement{Kind: "corr", Name: "corr:C01.parse_meets_grammar (parseTerms vs the documented grammar)", Input: cs, Impl: implPat.L[3].String(), Expect: sv.String()})
		}
	}
	var slab *util.Slab
	if !o.NilSlab {
		slab = fzf.VerifSlab()
	}
	var specV Val
	if inDomain {
		specV = c.Model.Call(104, L(o.val(), I(o.Scheme), tbl, runesVal(cs.Query), runesVals(cs.Lines)))
	}
	nMatched := 0
	for i, line := range cs.Lines {
		matched := vp.MatchItem([]byte(line), o.WithPos, slab)
		offs, score, pos := vp.Match([]byte(line), o.WithPos, slab)
		c01Inc(rep, &rep.ImplTraces)
		if matched {
			nMatched++
		}
		// projected observables
		impl := L()
		if matched {
			ov := []Val{}
			for _, of := range offs {
				ov = append(ov, L(I(int(of[0])), I(int(of[1]))))
			}
			pv := I(-1)
			if pos != nil {
				pv = Ints(*pos)
			}
			impl = L(L(ov...), I(score), pv)
		}
		one := cs
		one.Lines = []string{line}
		if inDomain && i < len(specV.L) {
			c01Inc(rep, &rep.SpecChecks)
			want := specV.L[i].I == 1
			if want != matched {
				name := "match_iff_sat: a matching line is dropped"
				if matched {
					name = "match_iff_sat: a non-matching line is shown"
				}
				c01Report(c, one, Disagreement{Kind: "spec", Name: name, Input: one, Impl: matched, Expect: want})
			}
		}
		mv := c.Model.Call(103, L(o.val(), I(o.Scheme), tbl, runesVal(cs.Query), runesVal(line), B(o.WithPos)))
		if !mv.Equal(impl) {
			c01Report(c, one, Disagreement{Kind: "corr", Name: "corr:C01.match_item", Input: one, Impl: impl.String(), Expect: mv.String()})
		}
	}
	rep.Eval(c01Key(cs), len(cs.Query) > 0 && nMatched > 0 && nMatched < len(cs.Lines))
	rep.Count(fmt.Sprintf("api:extended=%v fuzzy=%v", o.Extended, o.Fuzzy))
	rep.Count(fmt.Sprintf("api:groups=%d", len(sets)))
	if !inDomain {
		rep.Count("quirk:tab_in_query")
	}
	if nMatched > 0 && nMatched < len(cs.Lines) && len(sets) > 1 {
		rep.Sample(cs)
	}
}

// ---------- process level ----------

func (o c01Opts) args(query string) []string {
	a := []string{}
	if !o.Fuzzy {
		a = append(a, "--exact")
	}
	if !o.Extended {
		a = append(a, "+x")
	}
	switch o.Case {
	case 1:
		a = append(a, "-i")
	case 2:
		a = append(a, "+i")
	}
	if !o.Normalize {
		a = append(a, "--literal")
	}
	if o.V2 {
		a = append(a, "--algo=v2")
	} else {
		a = append(a, "--algo=v1")
	}
	if o.NoSort {
		a = append(a, "+s")
	}
	switch o.Scheme {
	case 1:
		a = append(a, "--scheme=path")
	case 2:
		a = append(a, "--scheme=history")
	}
	if o.Tiebreak != "" {
		a = append(a, "--tiebreak="+o.Tiebreak)
	}
	return append(a, "-f", query)
}

func c01Proc(c *Ctx, cs c01Case) {
	rep := c.Rep
	o := cs.Opts
	stdin := strings.Join(cs.Lines, "\n") + "\n"
	if len(cs.Lines) == 0 {
		stdin = ""
	}
	out, errs, code := RunFzf(c, o.args(cs.Query), []byte(stdin))
	c01Inc(rep, &rep.ImplTraces)
	got := []string{}
	if out != "" {
		got = strings.Split(strings.TrimSuffix(out, "\n"), "\n")
	}
	tbl := c01Table([]string{cs.Query}, cs.Lines)
	arg := L(o.val(), I(o.Scheme), tbl, runesVal(cs.Query), runesVals(cs.Lines))
	inDomain := !hasTab(cs.Query)
	if code != 0 && code != 1 {
		c01Report(c, cs, Disagreement{Kind: "spec", Name: "filter_exact: fzf --filter failed", Input: cs, Impl: fmt.Sprintf("exit %d stderr %q", code, errs), Expect: "exit 0 or 1"})
		return
	}
	verdicts := func(v Val) ([]string, bool) {
		if len(v.L) != len(cs.Lines) {
			return nil, false
		}
		keep := []string{}
		for i, x := range v.L {
			if x.I == 1 {
				keep = append(keep, cs.Lines[i])
			} else if x.I != 0 {
				return nil, false
			}
		}
		return keep, true
	}
	canon := func(xs []string) []string {
		ys := append([]string{}, xs...)
		if !o.NoSort {
			sort.Strings(ys) // ranking is C04's business: compare as multisets
		}
		return ys
	}
	diff := func(a, b []string) (onlyA, onlyB []string) {
		m := map[string]int{}
		for _, x := range a {
			m[x]++
		}
		for _, x := range b {
			if m[x] > 0 {
				m[x]--
			} else {
				onlyB = append(onlyB, x)
			}
		}
		for _, x := range a {
			if m[x] > 0 {
				m[x]--
				onlyA = append(onlyA, x)
			}
		}
		return
	}
	nKeep := -1
	if inDomain {
		c01Inc(rep, &rep.SpecChecks)
		want, ok := verdicts(c.Model.Call(104, arg))
		if !ok {
			c01Report(c, cs, Disagreement{Kind: "corr", Name: "corr:C01.spec_eval_failed", Input: cs, Impl: "", Expect: ""})
			return
		}
		nKeep = len(want)
		if strings.Join(canon(got), "\n") != strings.Join(canon(want), "\n") || len(got) != len(want) {
			dropped, shown := diff(want, got) // dropped: satisfied but not printed ; shown: printed but not satisfied
			small := cs
			name := "filter_exact: order of kept lines differs under +s"
			if len(dropped) > 0 {
				name = "filter_exact: a matching line is dropped"
			} else if len(shown) > 0 {
				name = "filter_exact: a non-matching line is shown"
			}
			if len(dropped)+len(shown) > 0 {
				small.Lines = append(append([]string{}, dropped...), shown...) // the suspicious lines only; reduced further by c01Report
			}
			c01Report(c, small, Disagreement{Kind: "spec", Name: name, Input: cs,
				Impl: map[string]interface{}{"shown_but_unsatisfied": shown, "satisfied_but_dropped": dropped, "n_out": len(got)},
				Expect: map[string]interface{}{"n_expected": len(want)}})
		}
		if (code == 0) != (len(want) > 0) {
			c01Report(c, cs, Disagreement{Kind: "spec", Name: "filter_exact: exit status does not reflect whether a line matched", Input: cs, Impl: code, Expect: len(want) > 0})
		}
	}
	// model vs implementation
	mk, ok := verdicts(c.Model.Call(105, arg))
	if !ok || strings.Join(canon(got), "\n") != strings.Join(canon(mk), "\n") {
		c01Report(c, cs, Disagreement{Kind: "corr", Name: "corr:C01.filter_model", Input: cs, Impl: fmt.Sprintf("%d lines", len(got)), Expect: fmt.Sprintf("%d lines (ok=%v)", len(mk), ok)})
	}
	rep.Eval(c01Key(cs), len(cs.Query) > 0 && len(got) > 0 && len(got) < len(cs.Lines))
	rep.Count(fmt.Sprintf("proc:extended=%v fuzzy=%v", o.Extended, o.Fuzzy))
	rep.CountN("proc:lines", len(cs.Lines))
	rep.CountN("proc:kept", len(got))
	if !inDomain {
		rep.Count("quirk:tab_in_query")
	}
	_ = nKeep
}

// ---------- generators ----------

var c01Letters = []rune{'a', 'b', 'c', 'd', 'e', 'o', 'x', 'A', 'B', 'E', 'O', 'Z', '0', '7'}
var c01Accented = []rune{0xe9, 0xc9, 0xe0, 0xf6, 0xd6, 0xf1, 0x4e2d, 0x130, 0x1c5, 0x1c6, 0x212a, 0xdf, 0x3a3, 0x3c3,
	// capitals whose lower-case form alone is in the normalisation table (Latin Extended, Vietnamese) and those forms
	0x10c, 0x10d, 0x17d, 0x17e, 0x150, 0x151, 0x141, 0x142, 0x1ea0, 0x1ea1}
var c01Punct = []rune{'_', '-', '/', '.', ',', ':'}
var c01Ops = []rune{'\'', '^', '$', '!', '|', '\\'}

// accent / case partners used for near-misses
var c01Swap = map[rune][]rune{'e': {0xe9, 'E', 0xc9}, 0xe9: {'e', 0xc9, 'E'}, 0xc9: {0xe9, 'e', 'E'}, 'E': {'e', 0xc9, 0xe9},
	'a': {0xe0, 'A'}, 0xe0: {'a', 'A'}, 'A': {'a', 0xe0}, 'o': {0xf6, 'O', 0xd6}, 0xf6: {'o', 0xd6}, 0xd6: {0xf6, 'o', 'O'}, 'O': {'o', 0xd6},
	'b': {'B'}, 'B': {'b'}, 'n': {0xf1}, 0xf1: {'n'}, 0x1c5: {0x1c6}, 0x1c6: {0x1c5}, 'k': {0x212a}, 0x212a: {'k'}, 'i': {0x130}, 0x130: {'i'},
	0x3a3: {0x3c3}, 0x3c3: {0x3a3}, 'z': {'Z', 0x17e, 0x17d}, 'Z': {'z', 0x17d}, 'x': {'X'}, 'c': {'C', 0x10d, 0x10c}, 'd': {'D'},
	0x10c: {0x10d, 'c', 'C'}, 0x10d: {0x10c, 'c'}, 0x17d: {0x17e, 'z'}, 0x17e: {0x17d, 'z'}, 0x150: {0x151, 'o'}, 0x151: {0x150, 'o'},
	0x141: {0x142, 'l'}, 0x142: {0x141, 'l'}, 'l': {0x141, 0x142, 'L'}, 0x1ea0: {0x1ea1, 'a'}, 0x1ea1: {0x1ea0, 'a'}}

func c01Word(r *RNG) []rune {
	n := 1 + r.Intn(4)
	if r.Chance(1, 6) {
		n = 1
	}
	w := make([]rune, n)
	for i := range w {
		switch {
		case r.Chance(1, 6):
			w[i] = Pick(r, c01Accented)
		case r.Chance(1, 12):
			w[i] = Pick(r, c01Punct)
		case r.Chance(1, 25):
			w[i] = Pick(r, c01Ops)
		default:
			w[i] = Pick(r, c01Letters)
		}
	}
	return w
}

// one term token and the bare word inside it
func c01TermToken(r *RNG) (string, []rune) {
	w := c01Word(r)
	body := string(w)
	if r.Chance(1, 8) && len(w) >= 2 { // escaped blank inside the term
		k := 1 + r.Intn(len(w)-1)
		body = string(w[:k]) + "\\ " + string(w[k:])
		w = append(append(append([]rune{}, w[:k]...), ' '), w[k:]...)
	} else if r.Chance(1, 30) {
		body = "\\ " + body
		w = append([]rune{' '}, w...)
	} else if r.Chance(1, 30) {
		body = body + "\\ "
		w = append(w, ' ')
	}
	tok := body
	switch r.Intn(9) {
	case 0, 1:
		// fuzzy (or exact under --exact)
	case 2:
		tok = "'" + body
	case 3:
		tok = "'" + body + "'"
	case 4:
		tok = "^" + body
	case 5:
		tok = body + "$"
	case 6:
		tok = "^" + body + "$"
	case 7:
		tok = Pick(r, []string{"'" + body + "$", "'" + body + "'$", "^'" + body, "'^" + body, body + "'", body + "^", "$" + body, body + "$$", "^^" + body, "''" + body + "'"})
	case 8:
		tok = body
	}
	if r.Chance(1, 4) {
		tok = "!" + tok
		if r.Chance(1, 10) {
			tok = "!" + tok
		}
	}
	return tok, w
}

var c01Stray = []string{"'", "^", "$", "!", "|", "''", "'$", "^$", "!$", "!'", "!^", "!|", "!!", "'''", "^'$", "\\", "\\ ", "'\\ '", "|a", "a|", "a|b", "$$", "!^$", "!''"}

func c01Query(r *RNG) (string, [][]rune) {
	words := [][]rune{}
	var b strings.Builder
	if r.Chance(1, 8) {
		b.WriteString(strings.Repeat(" ", 1+r.Intn(2)))
	}
	ngroups := 1 + r.Intn(4)
	if r.Chance(1, 40) {
		ngroups = 0
	}
	sep := func() {
		b.WriteString(" ")
		if r.Chance(1, 8) {
			b.WriteString(" ")
		}
	}
	for g := 0; g < ngroups; g++ {
		if g > 0 {
			sep()
		}
		nterms := 1
		if r.Chance(1, 3) {
			nterms = 2 + r.Intn(2)
		}
		for t := 0; t < nterms; t++ {
			if t > 0 {
				sep()
				b.WriteString("|")
				if r.Chance(1, 15) {
					b.WriteString(" |")
				}
				sep()
			}
			if r.Chance(1, 12) {
				b.WriteString(Pick(r, c01Stray))
				continue
			}
			tok, w := c01TermToken(r)
			b.WriteString(tok)
			words = append(words, w)
		}
	}
	if r.Chance(1, 15) {
		b.WriteString(" |")
	}
	if r.Chance(1, 15) {
		b.WriteString(" " + Pick(r, c01Stray))
	}
	if r.Chance(1, 8) {
		b.WriteString(strings.Repeat(" ", 1+r.Intn(2)))
	}
	q := b.String()
	if r.Chance(1, 25) { // quirks stream: a literal TAB (outside the spec's domain)
		rs := []rune(q)
		k := r.Intn(len(rs) + 1)
		q = string(rs[:k]) + "\t" + string(rs[k:])
	}
	return q, words
}

func c01Mutate(r *RNG, w []rune) []rune {
	w = append([]rune{}, w...)
	if len(w) == 0 {
		return w
	}
	k := r.Intn(len(w))
	switch r.Intn(7) {
	case 0: // exact copy
	case 1: // one char removed
		w = append(w[:k], w[k+1:]...)
	case 2: // one char changed
		w[k] = Pick(r, c01Letters)
	case 3, 4: // case flip / accent swap
		if alts, ok := c01Swap[w[k]]; ok {
			w[k] = Pick(r, alts)
		} else if unicode.IsLower(w[k]) {
			w[k] = unicode.ToUpper(w[k])
		} else {
			w[k] = unicode.ToLower(w[k])
		}
	case 5: // a gap inside (fuzzy still matches, exact does not)
		if len(w) > 1 && k > 0 {
			w = append(w[:k], append([]rune{Pick(r, []rune{'x', '_', ' ', '-'})}, w[k:]...)...)
		}
	case 6: // all upper / all lower
		up := r.Bool()
		for i := range w {
			if up {
				w[i] = unicode.ToUpper(w[i])
			} else {
				w[i] = unicode.ToLower(w[i])
			}
		}
	}
	return w
}

var c01Glue = []string{" ", " ", "_", "/", "", "-", ".", "x", "  ", "\t", ",", " ", " "}

func c01Line(r *RNG, words [][]rune) string {
	var b strings.Builder
	if r.Chance(1, 6) {
		b.WriteString(Pick(r, []string{" ", "  ", "\t", "_", "x", " "}))
	}
	n := 1 + r.Intn(4)
	if r.Chance(1, 12) {
		n = 0
	}
	for i := 0; i < n; i++ {
		if i > 0 {
			b.WriteString(Pick(r, c01Glue))
		}
		if len(words) > 0 && r.Chance(4, 5) {
			b.WriteString(string(c01Mutate(r, Pick(r, words))))
		} else {
			b.WriteString(string(c01Word(r)))
		}
	}
	if r.Chance(1, 6) {
		b.WriteString(Pick(r, []string{" ", "  ", "\t", "_", "x", "$", " "}))
	}
	s := b.String()
	s = strings.Map(func(c rune) rune {
		if c == '\n' || c == '\r' || c == 0 {
			return '.'
		}
		return c
	}, s)
	if !utf8.ValidString(s) {
		return "x"
	}
	return s
}

func c01RandOpts(r *RNG) c01Opts {
	o := c01Opts{Fuzzy: r.Chance(2, 3), V2: r.Chance(2, 3), Extended: r.Chance(5, 6), Case: r.Intn(3), Normalize: r.Chance(2, 3),
		Forward: r.Bool(), WithPos: r.Bool(), NilSlab: r.Chance(1, 4)}
	return o
}

func c01Gen(r *RNG, nlines int) c01Case {
	q, words := c01Query(r)
	cs := c01Case{Mode: "api", Opts: c01RandOpts(r), Query: q}
	if !cs.Opts.Extended && r.Chance(1, 2) && len(words) > 0 {
		// --no-extended: the query is one term; make it a plain word more often
		cs.Query = string(Pick(r, words))
	}
	if !cs.Opts.Extended {
		words = append(words, []rune(cs.Query))
	}
	for i := 0; i < nlines; i++ {
		cs.Lines = append(cs.Lines, c01Line(r, words))
	}
	return cs
}

// ---------- runner ----------

func c01Load(path string) []c01Case {
	b, err := os.ReadFile(path)
	if err != nil {
		return nil
	}
	var w struct{ Input json.RawMessage }
	var one c01Case
	var many []c01Case
	if json.Unmarshal(b, &w) == nil && len(w.Input) > 0 {
		if json.Unmarshal(w.Input, &one) == nil && one.Mode != "" {
			return []c01Case{one}
		}
	}
	if json.Unmarshal(b, &many) == nil && len(many) > 0 {
		return many
	}
	if json.Unmarshal(b, &one) == nil && one.Mode != "" {
		return []c01Case{one}
	}
	return nil
}

func c01RunOne(c *Ctx, cs c01Case) {
	if cs.Mode == "proc" {
		c01Proc(c, cs)
		return
	}
	algoMu.Lock()
	defer algoMu.Unlock()
	setScheme(cs.Opts.Scheme)
	c01Api(c, cs)
}

func c01SortByScheme(cs []c01Case) []c01Case {
	sort.SliceStable(cs, func(i, j int) bool {
		si, sj := cs[i].Opts.Scheme, cs[j].Opts.Scheme
		if cs[i].Mode == "proc" {
			si = 0
		}
		if cs[j].Mode == "proc" {
			sj = 0
		}
		return schemeRank[si] < schemeRank[sj]
	})
	return cs
}

func runC01(c *Ctx) {
	c.Rep.Rule = "grammar-directed queries (six term kinds x ! x OR groups x 1-4 AND groups, stray operators, escaped blanks, mixed case, accented letters) against lines built from near-misses of the query's own words; all of --exact/+x/-i/+i/--literal/--algo/+s/--scheme/direction; non-trivial = non-empty query that keeps some but not all lines; distinct by JSON of the case"
	if c.Replay != "" {
		if replaySearchSequence(c) {
			return
		}
		for _, cs := range c01SortByScheme(c01Load(c.Replay)) {
			c01RunOne(c, cs)
		}
		return
	}
	searchSequenceStream(c, 150, 3000) // default scheme: must run before the per-scheme passes
	corpus := []c01Case{}
	for _, f := range corpusFiles(c) {
		corpus = append(corpus, c01Load(f)...)
	}
	c.Rep.CountN("corpus", len(corpus))
	for _, cs := range c01SortByScheme(corpus) {
		if cs.Mode == "proc" {
			c01RunOne(c, cs)
		}
	}
	// process level first (independent of the in-process scoring scheme)
	np := c.N(120, 3000)
	parallel(c, np, func(i int, r *RNG) {
		cs := c01Gen(r, 100+r.Intn(201))
		cs.Mode = "proc"
		cs.Opts.NoSort = r.Bool()
		cs.Opts.NilSlab = false
		cs.Opts.WithPos = false
		switch r.Intn(6) {
		case 0:
			cs.Opts.Scheme = 1
		case 1:
			cs.Opts.Scheme = 2
		case 2:
			cs.Opts.Tiebreak = "end"
		case 3:
			cs.Opts.Tiebreak = "begin,index"
		}
		cs.Opts.Forward = !(cs.Opts.Scheme == 1 || cs.Opts.Tiebreak == "end")
		if cs.Opts.Tiebreak != "" && cs.Opts.NoSort {
			cs.Opts.Tiebreak = "" // keep the command line plain
			cs.Opts.Forward = cs.Opts.Scheme != 1
		}
		c01Proc(c, cs)
	})
	// in-process, scheme by scheme (default -> history -> path)
	corpus = c01SortByScheme(corpus)
	for _, sch := range schemeOrder {
		algoMu.Lock()
		setScheme(sch)
		algoMu.Unlock()
		for _, cs := range corpus {
			if cs.Mode != "proc" && cs.Opts.Scheme == sch {
				c01Api(c, cs)
			}
		}
		n := c.N(1000, 40000)
		parallel(c, n, func(i int, r *RNG) {
			cs := c01Gen(r, 6+r.Intn(6))
			cs.Opts.Scheme = sch
			if i%5 == 4 {
				cs.Mode = "raw"
				cs.Lines = nil
			}
			c01Api(c, cs)
		})
		if c.Thorough() && sch == 0 {
			c01Sweep(c)
		}
	}
}

// exhaustive sweep (thorough tier): all queries of <= 3 tokens over a small token alphabet x option combinations
func c01Sweep(c *Ctx) {
	toks := []string{"ab", "'ab", "'ab'", "^ab", "ab$", "^ab$", "!ab", "!'ab", "!^ab", "!ab$", "|", "Ab", "éb", "$", "'", "a\\ b"}
	lines := []string{"ab", "a b", "xab", "ab x", "x ab x", "a_b", "_ab_", "AB", "Ab", "éb", "eb", " ab ", "xaby", "a", "", "$", "'", "ab$", "| ab", "ba"}
	qs := []string{""}
	for _, a := range toks {
		qs = append(qs, a)
		for _, b := range toks {
			qs = append(qs, a+" "+b)
			for _, d := range toks {
				qs = append(qs, a+" "+b+" "+d)
			}
		}
	}
	parallel(c, len(qs), func(i int, r *RNG) {
		for k := 0; k < 4; k++ {
			o := c01Opts{Fuzzy: k&1 == 0, V2: r.Bool(), Extended: true, Case: r.Intn(3), Normalize: k&2 == 0, Forward: r.Bool(), WithPos: r.Bool()}
			c01Api(c, c01Case{Mode: "api", Opts: o, Query: qs[i], Lines: lines})
		}
	})
	c.Rep.Exhaustive = true
	c.Rep.Extra["exhaustive_scope"] = fmt.Sprintf("all queries of <= 3 tokens over %d token shapes (%d queries) x exact/literal x %d lines", len(toks), len(qs), len(lines))
}

func init() { runners["C01"] = runC01 }
