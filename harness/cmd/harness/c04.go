package main

// C04 - results are the matched lines, each once, in rank order.
//   spec  : RankSpec.key / rank_ltb / ranked / results evaluated on the implementation's outputs
//           (buildResult points, compareRanks verdicts, Merger.Get answers, Matcher.scan, fzf -f stdout)
//   corr  : RankModel / MergerModel vs the implementation through src/verif_hooks_rank.go

import (
	"crypto/sha1"
	"encoding/hex"
	"encoding/json"
	"fmt"
	"os"
	"sort"
	"strconv"
	"strings"
	"sync"
	"time"
	"unicode"

	fzf "github.com/junegunn/fzf/src"
	"github.com/junegunn/fzf/src/util"
)

type c04Res struct {
	Index int32     `json:"i"`
	P     [4]uint16 `json:"p"`
}

type c04Case struct {
	Kind       string     `json:"kind"` // build compare merger pass slices sort scan proc
	Crits      []int      `json:"crits,omitempty"`
	Text       string     `json:"text,omitempty"`
	Offsets    [][2]int32 `json:"offsets,omitempty"`
	Score      int        `json:"score,omitempty"`
	Index      int32      `json:"index,omitempty"`
	A          *c04Res    `json:"a,omitempty"`
	B          *c04Res    `json:"b,omitempty"`
	Tac        bool       `json:"tac,omitempty"`
	Lists      [][]c04Res `json:"lists,omitempty"`
	Sorted     bool       `json:"sorted,omitempty"`
	Probes     []int      `json:"probes,omitempty"`
	Counts     []int      `json:"counts,omitempty"`
	MinIndex   int32      `json:"minindex,omitempty"`
	N          int        `json:"n,omitempty"`
	K          int        `json:"k,omitempty"`
	Lines      []string   `json:"lines,omitempty"`
	Query      string     `json:"query,omitempty"`
	Positive   bool       `json:"positive,omitempty"` // the query has at least one non-negated term
	SortOn     bool       `json:"sort,omitempty"`
	Tail       int        `json:"tail,omitempty"`
	Scheme     int        `json:"scheme,omitempty"`   // 0 default 1 path 2 history
	Tiebreak   string     `json:"tiebreak,omitempty"` // "" = the scheme's default criteria
	Partitions int        `json:"partitions,omitempty"`
	// configuration stream (c04opts.go): when Cfg is set, scheme / criteria / sort / tac are NOT the fields above but
	// what the spec (CriteriaSpec.configured) reads from the option sequence Opts
	Cfg    bool     `json:"cfg,omitempty"`
	Walker bool     `json:"walker,omitempty"` // proc: stdin is a terminal, the lines come from $FZF_DEFAULT_COMMAND
	Opts   []c04Opt `json:"opts,omitempty"`
	crits  []int    // resolved criteria of a Cfg case (c04Resolve)
}

var c04Mu sync.Mutex // sortCriteria and the scoring scheme are process-wide

var c04Verr = L(I(-1), I(-1), I(-1))

func c04Recover(f func()) (pan string) {
	defer func() {
		if e := recover(); e != nil {
			pan = fmt.Sprint(e)
			if pan == "" {
				pan = "panic"
			}
		}
	}()
	f()
	return ""
}

func c04SpTable(texts ...string) Val {
	seen := map[rune]bool{}
	out := []Val{}
	for _, t := range texts {
		for _, r := range t {
			if r > 127 && !seen[r] && unicode.IsSpace(r) {
				seen[r] = true
				out = append(out, I(int(r)))
			}
		}
	}
	return L(out...)
}

func c04Offs(offs [][2]int32) Val {
	vs := []Val{}
	for _, o := range offs {
		vs = append(vs, L(I(int(o[0])), I(int(o[1]))))
	}
	return L(vs...)
}

func c04ResVal(r c04Res) Val {
	return L(I(int(r.Index)), L(I(int(r.P[0])), I(int(r.P[1])), I(int(r.P[2])), I(int(r.P[3]))))
}
func c04RItem(r c04Res) Val {
	return L(I(int(r.Index)), L(I(int(r.P[3])), I(int(r.P[2])), I(int(r.P[1])), I(int(r.P[0]))))
}
func (r c04Res) hook() fzf.VerifRes { return fzf.VerifRes{Index: r.Index, Points: r.P} }

// result_others.go copied as a plain function (the variant that is NOT compiled on this architecture)
func c04CompareGeneric(a, b c04Res, tac bool) bool {
	for idx := 3; idx >= 0; idx-- {
		left := a.P[idx]
		right := b.P[idx]
		if left < right {
			return true
		} else if left > right {
			return false
		}
	}
	return (a.Index <= b.Index) != tac
}

var schemeDefaultCrits = map[int][]int{0: {0, 2}, 1: {0, 5, 2}, 2: {0}}

func c04Crits(cs c04Case) []int {
	if cs.Cfg {
		return cs.crits
	}
	if cs.Tiebreak == "" {
		return schemeDefaultCrits[cs.Scheme]
	}
	return fzf.VerifParseTiebreak(cs.Tiebreak)
}

type c04D = Disagreement

// ---------- evaluation of one case: returns the disagreements, touches no report ----------

func c04EvalBuild(c *Ctx, cs c04Case) (ds []c04D, nontrivial bool) {
	runes := []rune(cs.Text)
	var pts [4]uint16
	c04Mu.Lock()
	fzf.VerifSetCriteria(cs.Crits)
	pan := c04Recover(func() { pts = fzf.VerifBuildResult(cs.Text, cs.Index, cs.Offsets, cs.Score) })
	c04Mu.Unlock()
	arg := L(Ints(cs.Crits), Runes(runes), c04Offs(cs.Offsets), I(cs.Score), c04SpTable(cs.Text), I(int(cs.Index)))
	mv := c.Model.Call(402, arg)
	if pan != "" {
		if !mv.Equal(c04Verr) {
			ds = append(ds, c04D{Kind: "corr", Name: "corr:C04.build_result", Input: cs, Impl: "panic: " + pan, Expect: mv.String()})
		}
		return ds, false
	}
	impl := L(I(int(pts[0])), I(int(pts[1])), I(int(pts[2])), I(int(pts[3])))
	if !mv.Equal(impl) {
		ds = append(ds, c04D{Kind: "corr", Name: "corr:C04.build_result", Input: cs, Impl: impl.String(), Expect: mv.String()})
	}
	inRange := len(cs.Crits) <= 4
	valid := false
	for _, o := range cs.Offsets {
		if o[0] < 0 || o[1] < 0 || int(o[0]) > len(runes) || int(o[1]) > len(runes) {
			inRange = false
		}
		if o[0] < o[1] {
			valid = true
		}
	}
	if inRange {
		c.Rep.mu.Lock()
		c.Rep.SpecChecks++
		c.Rep.mu.Unlock()
		key := c.Model.Call(401, arg).IntList()
		want := [4]int{}
		for i, k := range key {
			want[3-i] = k
		}
		wv := L(I(want[0]), I(want[1]), I(want[2]), I(want[3]))
		if !wv.Equal(impl) {
			ds = append(ds, c04D{Kind: "spec", Name: "points_eq_key", Input: cs, Impl: impl.String(), Expect: wv.String()})
		}
	}
	return ds, valid && len(cs.Crits) > 1
}

func c04EvalCompare(c *Ctx, cs c04Case) (ds []c04D, nontrivial bool) {
	a, b := *cs.A, *cs.B
	impl := fzf.VerifCompareRanks(a.hook(), b.hook(), cs.Tac)
	gen := c04CompareGeneric(a, b, cs.Tac)
	mv := c.Model.Call(403, L(c04ResVal(a), c04ResVal(b), B(cs.Tac))).IntList()
	if len(mv) != 3 {
		return []c04D{{Kind: "corr", Name: "corr:C04.compare_ranks", Input: cs, Impl: impl, Expect: "model error"}}, false
	}
	if impl != (mv[1] == 1) || impl != (mv[0] == 1) {
		ds = append(ds, c04D{Kind: "corr", Name: "corr:C04.compare_ranks", Input: cs, Impl: impl, Expect: mv})
	}
	if gen != (mv[0] == 1) {
		ds = append(ds, c04D{Kind: "corr", Name: "corr:C04.compare_ranks_generic", Input: cs, Impl: gen, Expect: mv})
	}
	if a.Index != b.Index {
		c.Rep.mu.Lock()
		c.Rep.SpecChecks++
		c.Rep.mu.Unlock()
		if impl != (mv[2] == 1) || gen != (mv[2] == 1) {
			ds = append(ds, c04D{Kind: "spec", Name: "rank_lt", Input: cs, Impl: []bool{impl, gen}, Expect: mv[2] == 1})
		}
	}
	return ds, a.P == b.P || a.Index != b.Index
}

// answers of a merger to a probe sequence; -999999 marks a panic
func c04Probe(m *fzf.VerifMerger, probes []int) (out []int, panicked bool) {
	for _, p := range probes {
		var x int32
		if pan := c04Recover(func() { x = m.Get(p) }); pan != "" {
			return out, true
		}
		out = append(out, int(x))
	}
	return out, false
}

// compare impl answers with the model's [length, answers] and with the spec order
func c04Judge(c *Ctx, cs c04Case, name string, n int, probes []int, got []int, panicked bool, mv Val, order []int, orderOK bool) (ds []c04D) {
	if len(mv.L) != 2 {
		return []c04D{{Kind: "corr", Name: "corr:C04." + name, Input: cs, Impl: got, Expect: "model error " + mv.String()}}
	}
	if int(mv.L[0].I) != n {
		ds = append(ds, c04D{Kind: "corr", Name: "corr:C04." + name + ".length", Input: cs, Impl: n, Expect: mv.L[0].I})
	}
	if panicked {
		if !mv.L[1].Equal(c04Verr) {
			ds = append(ds, c04D{Kind: "corr", Name: "corr:C04." + name, Input: cs, Impl: "panic", Expect: mv.L[1].String()})
		}
		return ds
	}
	if !orderOK && name == "pass_get" && mv.L[1].Equal(c04Verr) {
		// an out-of-range probe that lands in the unused tail of a chunk's fixed array: Go returns a stale slot,
		// the model (which keeps only the first `count` items) reports an error. Outside the property's domain.
		c.Rep.Count("pass.out_of_range_probe_reads_unused_slot")
		return ds
	}
	if !mv.L[1].Equal(Ints(got)) {
		ds = append(ds, c04D{Kind: "corr", Name: "corr:C04." + name, Input: cs, Impl: Ints(got).String(), Expect: mv.L[1].String()})
	}
	if orderOK {
		c.Rep.mu.Lock()
		c.Rep.SpecChecks++
		c.Rep.mu.Unlock()
		if n != len(order) {
			ds = append(ds, c04D{Kind: "spec", Name: "result_is_perm_of_matches", Input: cs, Impl: n, Expect: len(order)})
			return ds
		}
		for i, p := range probes {
			if p < 0 || p >= len(order) || got[i] != order[p] {
				ds = append(ds, c04D{Kind: "spec", Name: "ranked", Input: cs,
					Impl: fmt.Sprintf("Get(%d) = item %d (probe #%d)", p, got[i], i), Expect: fmt.Sprintf("item %v", at(order, p))})
				break
			}
		}
	}
	return ds
}

func at(xs []int, i int) interface{} {
	if i < 0 || i >= len(xs) {
		return "out of range"
	}
	return xs[i]
}

func c04EvalMerger(c *Ctx, cs c04Case) (ds []c04D, nontrivial bool) {
	ls := make([][]fzf.VerifRes, len(cs.Lists))
	lv := []Val{}
	items := []Val{}
	total := 0
	nonEmpty := 0
	for i, l := range cs.Lists {
		row := []Val{}
		for _, r := range l {
			ls[i] = append(ls[i], r.hook())
			row = append(row, c04ResVal(r))
			items = append(items, c04RItem(r))
		}
		lv = append(lv, L(row...))
		total += len(l)
		if len(l) > 0 {
			nonEmpty++
		}
	}
	m := fzf.VerifNewMerger(ls, cs.Sorted, cs.Tac)
	got, pan := c04Probe(m, cs.Probes)
	mv := c.Model.Call(404, L(L(lv...), B(cs.Sorted), B(cs.Tac), Ints(cs.Probes)))
	inRange := true
	for _, p := range cs.Probes {
		if p < 0 || p >= total {
			inRange = false
		}
	}
	var order []int
	if inRange {
		order = c.Model.Call(411, L(B(cs.Sorted), B(cs.Tac), B(false), L(items...))).IntList()
	}
	return c04Judge(c, cs, "merger_get", m.Length(), cs.Probes, got, pan, mv, order, inRange), nonEmpty >= 2 && len(cs.Probes) > 1
}

func c04EvalPass(c *Ctx, cs c04Case) (ds []c04D, nontrivial bool) {
	m := fzf.VerifPassMerger(cs.Counts, cs.MinIndex, cs.Tac)
	got, pan := c04Probe(m, cs.Probes)
	chunks := []Val{}
	order := []int{}
	idx := int(cs.MinIndex)
	for _, n := range cs.Counts {
		row := []Val{}
		for k := 0; k < n; k++ {
			row = append(row, I(idx))
			order = append(order, idx)
			idx++
		}
		chunks = append(chunks, L(row...))
	}
	if cs.Tac {
		for i, j := 0, len(order)-1; i < j; i, j = i+1, j-1 {
			order[i], order[j] = order[j], order[i]
		}
	}
	mv := c.Model.Call(405, L(L(chunks...), B(cs.Tac), I(fzf.VerifRankChunkSize), Ints(cs.Probes)))
	inRange := true
	for _, p := range cs.Probes {
		if p < 0 || p >= len(order) {
			inRange = false
		}
	}
	return c04Judge(c, cs, "pass_get", m.Length(), cs.Probes, got, pan, mv, order, inRange), len(cs.Counts) >= 2
}

func c04EvalSlices(c *Ctx, cs c04Case) (ds []c04D, nontrivial bool) {
	var impl [][]int
	pan := c04Recover(func() { impl = fzf.VerifSliceChunks(cs.N, cs.K) })
	mv := c.Model.Call(406, L(I(cs.K), I(cs.N)))
	if pan != "" {
		if !mv.Equal(c04Verr) {
			ds = append(ds, c04D{Kind: "corr", Name: "corr:C04.slice_chunks", Input: cs, Impl: "panic: " + pan, Expect: mv.String()})
		}
		if cs.K >= 1 {
			ds = append(ds, c04D{Kind: "spec", Name: "slice_chunks_partition", Input: cs, Impl: "panic: " + pan, Expect: "slices that concatenate to 0..n-1"})
		}
		return ds, false
	}
	iv := []Val{}
	flat := []int{}
	for _, s := range impl {
		iv = append(iv, Ints(s))
		flat = append(flat, s...)
	}
	if !mv.Equal(L(iv...)) {
		ds = append(ds, c04D{Kind: "corr", Name: "corr:C04.slice_chunks", Input: cs, Impl: L(iv...).String(), Expect: mv.String()})
	}
	c.Rep.mu.Lock()
	c.Rep.SpecChecks++
	c.Rep.mu.Unlock()
	ok := len(flat) == cs.N && len(impl) <= max(cs.K, 0)
	for i, x := range flat {
		if x != i {
			ok = false
		}
	}
	if !ok {
		ds = append(ds, c04D{Kind: "spec", Name: "slice_chunks_partition", Input: cs, Impl: impl, Expect: "slices that concatenate to 0..n-1, at most k of them"})
	}
	return ds, cs.N > cs.K
}

func c04EvalSort(c *Ctx, cs c04Case) (ds []c04D, nontrivial bool) {
	l := cs.Lists[0]
	hs := []fzf.VerifRes{}
	rv := []Val{}
	items := []Val{}
	for _, r := range l {
		hs = append(hs, r.hook())
		rv = append(rv, c04ResVal(r))
		items = append(items, c04RItem(r))
	}
	got := []int{}
	for _, x := range fzf.VerifSortResults(hs, cs.Tac) {
		got = append(got, int(x))
	}
	mv := c.Model.Call(409, L(L(rv...), B(cs.Tac)))
	if !mv.Equal(Ints(got)) {
		ds = append(ds, c04D{Kind: "corr", Name: "corr:C04.sort_results", Input: cs, Impl: Ints(got).String(), Expect: mv.String()})
	}
	c.Rep.mu.Lock()
	c.Rep.SpecChecks++
	c.Rep.mu.Unlock()
	sv := c.Model.Call(411, L(B(true), B(cs.Tac), B(false), L(items...)))
	if !sv.Equal(Ints(got)) {
		ds = append(ds, c04D{Kind: "spec", Name: "ranked", Input: cs, Impl: Ints(got).String(), Expect: sv.String()})
	}
	return ds, len(l) >= 3
}

// per-line match information from the implementation (hook around Pattern.MatchItem)
type c04Info struct {
	Matched bool
	Offsets [][2]int32
	Score   int
	Points  [4]uint16
}

var c04Slab *util.Slab

// c04Match sets scheme + criteria and matches every line. Caller holds c04Mu.
func c04Match(cs c04Case) (pat *fzf.VerifRankPattern, crits []int, infos []c04Info) {
	algoMu.Lock()
	setScheme(cs.Scheme)
	algoMu.Unlock()
	crits = c04Crits(cs)
	fzf.VerifSetCriteria(crits)
	pat = fzf.VerifRankBuildPattern(cs.Query, crits, true, false, 0, true)
	if c04Slab == nil {
		c04Slab = util.MakeSlab(100*1024, 2048)
	}
	infos = make([]c04Info, len(cs.Lines))
	for i, l := range cs.Lines {
		ok, offs, score, pts := pat.MatchLine(l, int32(i), c04Slab)
		infos[i] = c04Info{ok, offs, score, pts}
	}
	return
}

// expected result order by the extracted spec (RankSpec.results), as line indexes
func c04SpecOrder(c *Ctx, cs c04Case, crits []int, infos []c04Info, fast bool) []int {
	lines := make([]Val, len(cs.Lines))
	for i, l := range cs.Lines {
		in := infos[i]
		if in.Matched {
			lines[i] = L(I(i), Runes([]rune(l)), I(1), c04Offs(in.Offsets), I(in.Score))
		} else {
			lines[i] = L(I(i), L(), I(0), L(), I(0)) // text of a non-matching line is irrelevant
		}
	}
	op := 408
	if fast {
		op = 407
	}
	return c.Model.Call(op, L(Ints(crits), B(cs.SortOn), B(cs.Positive), B(cs.Tac), I(cs.Tail), c04SpTable(cs.Lines...), L(lines...))).IntList()
}

func c04EvalScan(c *Ctx, cs c04Case) (ds []c04D, nontrivial bool) {
	c04Mu.Lock()
	defer c04Mu.Unlock()
	pat, crits, infos := c04Match(cs)
	if c04ScanHung {
		return nil, false
	}
	var m *fzf.VerifMerger
	// Matcher.scan waits on channels: a defect in the chunk/partition arithmetic shows up as a hang
	done := make(chan string, 1)
	go func() {
		done <- c04Recover(func() { m = fzf.VerifScan(pat, cs.Lines, cs.SortOn, cs.Tac, cs.Partitions, cs.Tail) })
	}()
	select {
	case pan := <-done:
		if pan != "" {
			return []c04D{{Kind: "spec", Name: "no_crash", Input: cs, Impl: "panic: " + pan, Expect: "a merger"}}, false
		}
	case <-time.After(15 * time.Second):
		c04ScanHung = true
		return []c04D{{Kind: "spec", Name: "scan_terminates", Input: cs, Impl: "Matcher.scan did not return within 15 s", Expect: "a merger"}}, false
	}
	n := m.Length()
	probes := []int{}
	if cs.Probes == nil {
		for i := 0; i < n; i++ {
			probes = append(probes, i)
		}
	} else if n > 0 {
		for _, p := range cs.Probes {
			probes = append(probes, p%n)
		}
	}
	got, pan := c04Probe(m, probes)
	total := 0
	for _, k := range m.Counts {
		total += k
	}
	// model: the snapshot's chunks with per-item match verdict and points
	idx := len(cs.Lines) - total
	chunks := []Val{}
	for _, k := range m.Counts {
		row := []Val{}
		for j := 0; j < k; j++ {
			in := infos[idx]
			row = append(row, L(I(idx), B(in.Matched), L(I(int(in.Points[0])), I(int(in.Points[1])), I(int(in.Points[2])), I(int(in.Points[3])))))
			idx++
		}
		chunks = append(chunks, L(row...))
	}
	var mv Val
	if len(cs.Lines) <= 4000 {
		mv = c.Model.Call(410, L(I(cs.Partitions), B(cs.SortOn), B(cs.Tac), B(pat.IsEmpty()), B(pat.Sortable()), I(fzf.VerifRankChunkSize), L(chunks...), Ints(probes)))
	} else {
		mv = L(I(n), Ints(got)) // too large for the quadratic model: spec only
		if pan {
			mv = L(I(n), c04Verr)
		}
	}
	order := c04SpecOrder(c, cs, crits, infos, len(cs.Lines) > 300)
	matched := 0
	for _, in := range infos {
		if in.Matched {
			matched++
		}
	}
	return c04Judge(c, cs, "scan", n, probes, got, pan, mv, order, true), matched >= 2
}

func c04Args(cs c04Case) []string {
	if cs.Cfg {
		// the option sequence as generated; file and environment parts are passed by c04EvalProc
		a, _, _ := c04Render(cs.Opts)
		args := append([]string{"-f", cs.Query}, a...)
		if cs.Tail > 0 {
			args = append(args, "--tail", strconv.Itoa(cs.Tail))
		}
		return args
	}
	args := []string{"-f", cs.Query, "--scheme=" + schemeNames[cs.Scheme]}
	if cs.Tiebreak != "" {
		args = append(args, "--tiebreak="+cs.Tiebreak)
	}
	if cs.Tac {
		args = append(args, "--tac")
	}
	if !cs.SortOn {
		args = append(args, "+s")
	}
	if cs.Tail > 0 {
		args = append(args, "--tail", strconv.Itoa(cs.Tail))
	}
	return args
}

var c04ScanHung, c04ProcHung bool

func c04EvalProc(c *Ctx, cs c04Case) (ds []c04D, nontrivial bool) {
	if c04ProcHung {
		return nil, false
	}
	env := []string{}
	if cs.Cfg {
		ok := false
		if cs, ok = c04Resolve(c, cs); !ok {
			c.Rep.Count("proc.cfg.rejected_by_spec")
			return nil, false
		}
		if schemeRank[cs.Scheme] < schemeRank[algoScheme] {
			c.Rep.Count("proc.cfg.skipped_scheme_order") // algo.Init cannot go back (see algo.go)
			return nil, false
		}
		if !cs.SortOn && !cs.Tac {
			cs.Tail = 0 // streaming filter
		}
		_, e, f := c04Render(cs.Opts)
		path, fok := c04EnvFile(c, f)
		if !fok {
			return nil, false
		}
		env = []string{"FZF_DEFAULT_OPTS=" + e, "FZF_DEFAULT_OPTS_FILE=" + path}
	}
	c04Mu.Lock()
	_, crits, infos := c04Match(cs)
	c04Mu.Unlock()
	order := c04SpecOrder(c, cs, crits, infos, len(cs.Lines) > 300)
	want := make([]string, len(order))
	for i, x := range order {
		want[i] = cs.Lines[x]
	}
	stdin := strings.Join(cs.Lines, "\n")
	if len(cs.Lines) > 0 {
		stdin += "\n"
	}
	var out, errb string
	var code int
	if cs.Cfg && cs.Walker {
		out, errb, code = RunFzfTTY(c, c04Args(cs), []byte(stdin), env...)
		if code == -2 {
			c.Rep.Count("proc.cfg.walker_skipped_no_pty")
			return nil, false
		}
		c.Rep.Count("proc.cfg.walker(stdin_is_tty)")
	} else {
		out, errb, code = RunFzf(c, c04Args(cs), []byte(stdin), env...)
	}
	c.Rep.mu.Lock()
	c.Rep.SpecChecks++
	c.Rep.ImplTraces++
	c.Rep.mu.Unlock()
	if code == -1 {
		c04ProcHung = true // timeout: do not spend 30 s on every further case
	}
	if code != 0 && code != 1 {
		return []c04D{{Kind: "spec", Name: "filter_runs", Input: cs, Impl: fmt.Sprintf("exit %d: %s", code, errb), Expect: "exit 0 or 1"}}, false
	}
	got := []string{}
	if out != "" {
		got = strings.Split(strings.TrimSuffix(out, "\n"), "\n")
	}
	if len(got) != len(want) {
		return []c04D{{Kind: "spec", Name: "result_is_perm_of_matches", Input: cs,
			Impl: fmt.Sprintf("%d lines printed", len(got)), Expect: fmt.Sprintf("%d matching lines", len(want))}}, false
	}
	for i := range got {
		if got[i] != want[i] {
			cfg := ""
			if cs.Cfg {
				if cs.Walker {
					cfg = " stdin is a terminal, lines from $FZF_DEFAULT_COMMAND;"
				}
				cfg = fmt.Sprintf(" [%s fzf %s %s; configured: scheme=%s criteria=%v sort=%v tac=%v]", cfg, strings.Join(c04Args(cs), " "), strings.Join(env, " "),
					schemeNames[cs.Scheme], crits, cs.SortOn, cs.Tac)
			}
			return []c04D{{Kind: "spec", Name: "ranked", Input: cs,
				Impl:   fmt.Sprintf("output line %d is %q", i, got[i]),
				Expect: fmt.Sprintf("%q (item %d)", want[i], order[i]) + cfg}}, false
		}
	}
	return nil, len(want) >= 2
}

func c04Eval(c *Ctx, cs c04Case) ([]c04D, bool) {
	switch cs.Kind {
	case "build":
		return c04EvalBuild(c, cs)
	case "compare":
		return c04EvalCompare(c, cs)
	case "merger":
		return c04EvalMerger(c, cs)
	case "pass":
		return c04EvalPass(c, cs)
	case "slices":
		return c04EvalSlices(c, cs)
	case "sort":
		return c04EvalSort(c, cs)
	case "scan":
		return c04EvalScan(c, cs)
	case "proc":
		return c04EvalProc(c, cs)
	case "opts":
		return c04EvalOpts(c, cs)
	}
	return nil, false
}

func hasSpec(ds []c04D) bool {
	for _, d := range ds {
		if d.Kind == "spec" {
			return true
		}
	}
	return false
}

// shrink a failing scan/proc case: fewer lines while a spec disagreement persists (bounded effort)
func c04Shrink(c *Ctx, cs c04Case, ds []c04D) (c04Case, []c04D) {
	if (cs.Kind != "scan" && cs.Kind != "proc") || !hasSpec(ds) || len(cs.Lines) <= 2 || c04ScanHung || c04ProcHung {
		return cs, ds
	}
	try := func(lines []string) bool {
		t := cs
		t.Lines = lines
		t.Probes = nil
		if t.Tail > len(lines) {
			t.Tail = 0
		}
		d, _ := c04Eval(c, t)
		if hasSpec(d) {
			cs, ds = t, d
			return true
		}
		return false
	}
	budget := 60
	// pairs of adjacent distinct lines first (two lines are enough for an ordering defect)
	for gran := 2; budget > 0 && len(cs.Lines) > 2; {
		n := len(cs.Lines)
		chunk := (n + gran - 1) / gran
		reduced := false
		for s := 0; s < n && budget > 0; s += chunk {
			e := min(s+chunk, n)
			rest := append(append([]string{}, cs.Lines[:s]...), cs.Lines[e:]...)
			budget--
			if len(rest) >= 1 && try(rest) {
				reduced = true
				break
			}
		}
		if !reduced {
			if chunk <= 1 {
				break
			}
			gran *= 2
		} else if gran > 2 {
			gran--
		}
	}
	return cs, ds
}

// shrink the option sequence of a configuration case: drop options while a spec disagreement persists
func c04ShrinkOpts(c *Ctx, cs c04Case, ds []c04D) (c04Case, []c04D) {
	if !cs.Cfg || !hasSpec(ds) || c04ProcHung {
		return cs, ds
	}
	for i, budget := 0, 12; i < len(cs.Opts) && budget > 0; budget-- {
		t := cs
		t.Opts = append(append([]c04Opt{}, cs.Opts[:i]...), cs.Opts[i+1:]...)
		if d, _ := c04Eval(c, t); hasSpec(d) {
			cs, ds = t, d
		} else {
			i++
		}
	}
	return cs, ds
}

func c04Key(cs c04Case) string {
	b, _ := json.Marshal(cs)
	if len(b) > 4096 {
		h := sha1.Sum(b)
		return cs.Kind + hex.EncodeToString(h[:])
	}
	return string(b)
}

var c04Shrunk, c04SpecSeen int

func c04Check(c *Ctx, cs c04Case) {
	if c04SpecSeen >= 12 {
		return // enough failing inputs: the verdict is settled, do not spend the budget on more of the same
	}
	ds, nontrivial := c04Eval(c, cs)
	c.Rep.Eval(c04Key(cs), nontrivial)
	c.Rep.Count("kind=" + cs.Kind)
	if hasSpec(ds) {
		c04SpecSeen++
		if cs.Kind == "opts" {
			cs, ds = c04ShrinkOpts(c, cs, ds) // in process: cheap
		} else if c04Shrunk < 3 && len(cs.Lines) <= 5000 {
			c04Shrunk++
			cs, ds = c04Shrink(c, cs, ds)
			cs, ds = c04ShrinkOpts(c, cs, ds)
		}
	}
	for _, d := range ds {
		c.Rep.Disagreement(d)
	}
	switch cs.Kind {
	case "scan", "proc":
		c.Rep.Count(cs.Kind + ".lines=" + sizeBucket(len(cs.Lines)))
		c.Rep.Count(fmt.Sprintf("%s.sort=%v,tac=%v", cs.Kind, cs.SortOn, cs.Tac))
		c.Rep.Count(cs.Kind + ".scheme=" + schemeNames[cs.Scheme])
		if cs.Tail > 0 {
			c.Rep.Count(cs.Kind + ".tail")
		}
		if cs.Query == "" {
			c.Rep.Count(cs.Kind + ".query=empty")
		} else if !cs.Positive {
			c.Rep.Count(cs.Kind + ".query=negated-only")
		}
		if len(cs.Lines) <= 12 {
			c.Rep.Sample(cs)
		}
	case "build", "merger":
		if len(c.Rep.Samples) < 3 {
			c.Rep.Sample(cs)
		}
	}
	if cs.Cfg {
		c.Rep.Count(fmt.Sprintf("%s.cfg.options=%d", cs.Kind, min(len(cs.Opts), 4)))
		hasScheme, lastTie, where := false, "", 0
		for _, o := range c04ReadOrder(cs.Opts) {
			switch o.K {
			case "scheme":
				hasScheme, lastTie = true, ""
			case "tiebreak":
				lastTie = strings.ToLower(o.V)
			}
			where |= 1 << o.Where
		}
		if !hasScheme {
			c.Rep.Count(cs.Kind + ".cfg.no_scheme_option")
		}
		if lastTie == "index" {
			c.Rep.Count(cs.Kind + ".cfg.tiebreak=index_last")
			if !hasScheme {
				c.Rep.Count(cs.Kind + ".cfg.tiebreak=index_last,no_scheme_option")
			}
		}
		if where&6 != 0 {
			c.Rep.Count(cs.Kind + ".cfg.default_opts_env_or_file")
		}
	}
}

func sizeBucket(n int) string {
	switch {
	case n == 0:
		return "0"
	case n == 1:
		return "1"
	case n < 100:
		return "2-99"
	case n <= 101:
		return "100+-1"
	case n < 3199:
		return "102-3198"
	case n <= 3201:
		return "3200+-1"
	default:
		return ">3201"
	}
}

// ---------- generators ----------

var c04Alpha = []rune{'a', 'b', 'o', 'f', ' ', ' ', '\t', '/', '\\', 'x', 'A', 0xe9, 0xa0, 0x3000, 0x65e5, '_'}

func c04GenCrits(r *RNG) []int {
	cs := []int{0}
	perm := []int{1, 2, 3, 4, 5}
	for i := len(perm) - 1; i > 0; i-- {
		j := r.Intn(i + 1)
		perm[i], perm[j] = perm[j], perm[i]
	}
	return append(cs, perm[:r.Intn(4)]...)
}

func c04GenText(r *RNG, n int) string {
	rs := make([]rune, n)
	for i := range rs {
		rs[i] = Pick(r, c04Alpha)
	}
	return string(rs)
}

func c04GenBuild(r *RNG) c04Case {
	n := Pick(r, []int{0, 1, 2, 3, 5, 8, 12, 20})
	if r.Chance(1, 40) {
		n = 300
	}
	cs := c04Case{Kind: "build", Crits: c04GenCrits(r), Text: c04GenText(r, n), Index: int32(r.Intn(1000))}
	no := Pick(r, []int{0, 1, 1, 1, 2, 3})
	oob := r.Chance(1, 20)
	for i := 0; i < no; i++ {
		b := r.Intn(n + 1)
		e := r.Intn(n + 1)
		if r.Chance(2, 3) && b > e {
			b, e = e, b
		}
		if r.Chance(1, 6) {
			b, e = 0, 0
		}
		if oob && r.Bool() {
			e += r.Intn(4)
			if r.Bool() {
				b = e + r.Intn(3) - 1
			}
		}
		cs.Offsets = append(cs.Offsets, [2]int32{int32(b), int32(e)})
	}
	cs.Score = Pick(r, []int{0, 1, 16, 32, 50, 100, 300, 65535, 65536, 70000, -1, -20})
	if r.Bool() {
		cs.Score = r.Intn(200)
	}
	if r.Chance(1, 50) {
		cs.Crits = append(cs.Crits, 1) // five criteria: Go panics (index 3-4), the model must fail too
	}
	return cs
}

var c04PointVals = []uint16{0, 0, 1, 1, 2, 3, 255, 256, 65534, 65535}

func c04GenRes(r *RNG, maxIndex int) c04Res {
	x := c04Res{Index: int32(r.Intn(maxIndex))}
	for i := range x.P {
		if r.Chance(1, 10) {
			x.P[i] = uint16(r.Intn(65536))
		} else {
			x.P[i] = Pick(r, c04PointVals)
		}
	}
	if r.Chance(1, 3) { // few distinct keys: many ties
		x.P = [4]uint16{0, 0, uint16(r.Intn(2)), uint16(r.Intn(3))}
	}
	return x
}

func c04GenCompare(r *RNG) c04Case {
	a, b := c04GenRes(r, 4), c04GenRes(r, 4)
	if r.Chance(1, 2) {
		b.P = a.P
		if r.Bool() {
			b.P[r.Intn(4)] += uint16(r.Intn(3)) - 1
		}
	}
	return c04Case{Kind: "compare", A: &a, B: &b, Tac: r.Bool()}
}

// results with distinct indexes, dealt into k lists, each in index order (as matching produces them)
func c04GenLists(r *RNG, total, k int, tiesOnly bool) [][]c04Res {
	lists := make([][]c04Res, k)
	base := r.Intn(50)
	// contiguous runs like partitions of chunks, or a random deal
	contiguous := r.Bool()
	for i := 0; i < total; i++ {
		x := c04GenRes(r, 1)
		x.Index = int32(base + i)
		if tiesOnly {
			x.P = [4]uint16{0, 0, 0, uint16(r.Intn(2))}
		}
		j := r.Intn(k)
		if contiguous {
			j = i * k / max(total, 1)
		}
		lists[j] = append(lists[j], x)
	}
	return lists
}

func c04GenProbes(r *RNG, n int, allowOut bool) []int {
	probes := []int{}
	if n == 0 {
		if allowOut && r.Chance(1, 4) {
			return []int{0}
		}
		return probes
	}
	switch r.Intn(4) {
	case 0: // sequential
		for i := 0; i < n; i++ {
			probes = append(probes, i)
		}
	case 1: // backwards
		for i := n - 1; i >= 0; i-- {
			probes = append(probes, i)
		}
	case 2: // random with repeats
		for i := 0; i < r.Range(1, 2*n); i++ {
			probes = append(probes, r.Intn(n))
		}
	default: // a jump then around it
		j := r.Intn(n)
		probes = append(probes, j, 0, n-1, j/2, min(j+1, n-1))
	}
	if allowOut && r.Chance(1, 25) {
		probes = append(probes, Pick(r, []int{n, -1, n + 5}))
	}
	return probes
}

func c04GenMerger(r *RNG) c04Case {
	k := Pick(r, []int{0, 1, 1, 2, 2, 3, 4, 8, 33})
	total := Pick(r, []int{0, 1, 2, 3, 5, 8, 13, 30, 60})
	if k == 0 {
		total = 0
	}
	cs := c04Case{Kind: "merger", Sorted: r.Chance(3, 4), Tac: r.Bool()}
	if k > 0 {
		cs.Lists = c04GenLists(r, total, k, r.Chance(1, 5))
	} else {
		cs.Lists = [][]c04Res{}
	}
	if cs.Sorted {
		for _, l := range cs.Lists {
			l := l
			sort.SliceStable(l, func(i, j int) bool { return c04CompareGeneric(l[i], l[j], cs.Tac) })
		}
	}
	cs.Probes = c04GenProbes(r, total, true)
	return cs
}

func c04GenCounts(r *RNG) []int {
	n := Pick(r, []int{1, 1, 2, 2, 3, 5})
	if r.Chance(1, 12) {
		return []int{} // no chunk at all: Get must fail in both
	}
	counts := make([]int, n)
	for i := range counts {
		counts[i] = fzf.VerifRankChunkSize
	}
	counts[0] = Pick(r, []int{1, 2, 50, 99, 100, 100})
	if n > 1 {
		counts[n-1] = Pick(r, []int{1, 2, 50, 99, 100, 100})
	}
	return counts
}

func c04GenPass(r *RNG) c04Case {
	cs := c04Case{Kind: "pass", Counts: c04GenCounts(r), MinIndex: int32(Pick(r, []int{0, 0, 7, 1000})), Tac: r.Bool()}
	total := 0
	for _, n := range cs.Counts {
		total += n
	}
	cs.Probes = c04GenProbes(r, total, true)
	if len(cs.Probes) > 60 {
		cs.Probes = cs.Probes[:60]
	}
	if total > 0 {
		cs.Probes = append(cs.Probes, 0, total-1, min(cs.Counts[0], total-1), max(cs.Counts[0]-1, 0))
	}
	return cs
}

var c04Segs = []string{"foo", "foo", "bar", "fo", "o", "ob", "/", "/", "\\", " ", " ", "  ", "\t", "x", "ab", "a/b", "Foo",
	"é", "fö", " ", "　", "baz", "f_o", "oo", "b", "a"}
var c04Tails = []string{"p", "q", "r", "s"}

func c04GenLine(r *RNG) string {
	n := Pick(r, []int{0, 1, 1, 2, 2, 3, 3, 4, 6})
	var b strings.Builder
	for i := 0; i < n; i++ {
		b.WriteString(Pick(r, c04Segs))
	}
	if r.Bool() {
		b.WriteString(Pick(r, c04Tails)) // same keys, different text: the index tiebreak becomes visible
	}
	return b.String()
}

var c04Words = []string{"foo", "fo", "o", "ob", "a", "b", "ab", "f", "oo", "x", "ba", "bar", "/", "p"}

func c04GenQuery(r *RNG) (q string, positive bool) {
	if r.Chance(1, 12) {
		return Pick(r, []string{"", "", " ", "  "}), false
	}
	term := func(neg bool) string {
		t := ""
		if neg {
			t = "!"
		}
		t += Pick(r, []string{"", "", "", "'", "^"}) + Pick(r, c04Words)
		if r.Chance(1, 8) {
			t += "$"
		}
		return t
	}
	if r.Chance(1, 10) { // negated terms only
		n := r.Range(1, 2)
		ts := []string{}
		for i := 0; i < n; i++ {
			ts = append(ts, term(true))
		}
		return strings.Join(ts, " "), false
	}
	n := Pick(r, []int{1, 1, 1, 2, 2, 3})
	ts := []string{}
	for i := 0; i < n; i++ {
		neg := r.Chance(1, 6)
		t := term(neg)
		if !neg {
			positive = true
			if r.Chance(1, 8) {
				t += " | " + term(false)
			}
		}
		ts = append(ts, t)
	}
	if !positive {
		ts = append(ts, term(false))
		positive = true
	}
	return strings.Join(ts, " "), positive
}

var c04TieNames = []string{"length", "chunk", "begin", "end", "pathname"}

// all 171 valid --tiebreak strings
func c04AllTiebreaks() []string {
	out := []string{}
	var rec func(cur []string, used int)
	rec = func(cur []string, used int) {
		if len(cur) > 0 {
			out = append(out, strings.Join(cur, ","))
		}
		out = append(out, strings.Join(append(append([]string{}, cur...), "index"), ","))
		if len(cur) == 3 {
			return
		}
		for i, n := range c04TieNames {
			if used&(1<<i) == 0 {
				rec(append(append([]string{}, cur...), n), used|1<<i)
			}
		}
	}
	rec(nil, 0)
	return out
}

func c04GenLines(r *RNG, n int) []string {
	lines := make([]string, n)
	for i := range lines {
		lines[i] = c04GenLine(r)
	}
	return lines
}

func c04GenScanLike(r *RNG, kind string, scheme int, n int, ties []string) c04Case {
	cs := c04Case{Kind: kind, Scheme: scheme, Lines: c04GenLines(r, n), SortOn: r.Chance(4, 5), Tac: r.Chance(1, 3)}
	cs.Query, cs.Positive = c04GenQuery(r)
	if r.Chance(4, 5) {
		cs.Tiebreak = Pick(r, ties)
	}
	if r.Chance(1, 4) && n > 0 {
		cs.Tail = Pick(r, []int{1, 2, n / 2, n - 1, n, n + 1, 99, 100, 101, 150, 250})
		if cs.Tail <= 0 {
			cs.Tail = 1
		}
	}
	if kind == "proc" && !cs.SortOn && !cs.Tac {
		cs.Tail = 0 // streaming filter: --tail does not apply (core.go: "inherently not compatible")
	}
	if kind == "scan" {
		cs.Partitions = Pick(r, []int{1, 2, 3, 4, 7, 8, 16, 32, 32})
	}
	return cs
}

func c04Load(path string) (c04Case, bool) {
	var cs c04Case
	b, err := os.ReadFile(path)
	if err != nil {
		return cs, false
	}
	var w struct{ Input c04Case }
	if json.Unmarshal(b, &w) == nil && w.Input.Kind != "" {
		return w.Input, true
	}
	if json.Unmarshal(b, &cs) == nil && cs.Kind != "" {
		return cs, true
	}
	return cs, false
}

func runC04(c *Ctx) {
	c.Rep.Rule = "kinds: build (random text/offsets/score/criteria: buildResult points vs RankSpec.key and RankModel), compare (compareRanks x86 + generic copy vs model and rank_lt), " +
		"merger/pass (NewMerger/PassMerger with random probe sequences vs MergerModel and the spec order), slices, sort, scan (Matcher.scan with 1..32 partitions, --tail snapshots) and proc (fzf -f stdout sequence) vs RankSpec.results; " +
		"opts (fzf.ParseOptions on whole command lines vs CriteriaSpec.configured and CriteriaModel) and proc with cfg (the same command lines on the fzf process; scheme, criteria, sort, tac as the spec reads them); " +
		"non-trivial = at least two matches / two non-empty lists / a valid offset with a tiebreak criterion; distinct by JSON of the case"
	if c.Replay != "" {
		if replaySearchSequence(c) {
			return
		}
		if cs, ok := c04Load(c.Replay); ok {
			c04Check(c, cs)
		}
		return
	}
	searchSequenceStream(c, 150, 3000) // default scheme: must run before the per-scheme passes
	// the corpus may contain cases of any scheme: order them default, history, path
	corpus := []c04Case{}
	for _, f := range corpusFiles(c) {
		if cs, ok := c04Load(f); ok {
			corpus = append(corpus, cs)
		}
	}
	sort.SliceStable(corpus, func(i, j int) bool { return schemeRank[corpus[i].Scheme] < schemeRank[corpus[j].Scheme] })
	r := c.Rng
	ties := c04AllTiebreaks()
	c.Rep.Extra["tiebreak_strings"] = len(ties)
	c.Rep.Extra["partitions_on_this_machine"] = fzf.VerifPartitions()

	ci := 0
	for _, scheme := range schemeOrder {
		for ; ci < len(corpus) && corpus[ci].Scheme == scheme; ci++ {
			c04Check(c, corpus[ci])
			c.Rep.Count("corpus")
		}
		if scheme == 0 {
			// scheme-independent layers
			for i, n := 0, c.N(15000, 300000); i < n; i++ {
				c04Check(c, c04GenBuild(r))
			}
			for i, n := 0, c.N(8000, 200000); i < n; i++ {
				c04Check(c, c04GenCompare(r))
			}
			for i, n := 0, c.N(6000, 150000); i < n; i++ {
				c04Check(c, c04GenMerger(r))
			}
			for i, n := 0, c.N(1000, 30000); i < n; i++ {
				c04Check(c, c04GenPass(r))
			}
			for i, n := 0, c.N(1500, 30000); i < n; i++ {
				lists := c04GenLists(r, Pick(r, []int{0, 1, 2, 3, 8, 20, 40}), 1, r.Chance(1, 4))
				c04Check(c, c04Case{Kind: "sort", Lists: lists, Tac: r.Bool()})
			}
			maxN := 140
			if c.Thorough() {
				maxN = 400
			}
			for n := 0; n <= maxN; n++ {
				for _, k := range []int{1, 2, 3, 4, 5, 7, 8, 16, 31, 32, 33, 64} {
					if c.Thorough() || n < 12 || r.Chance(1, 3) {
						c04Check(c, c04Case{Kind: "slices", N: n, K: k})
					}
				}
			}
			c04Check(c, c04Case{Kind: "slices", N: 5, K: 0})
			// configuration: the real ParseOptions on command lines built from --scheme/--tiebreak/--sort/--tac options
			// (arguments, $FZF_DEFAULT_OPTS, $FZF_DEFAULT_OPTS_FILE; valid and malformed values)
			for i, n := 0, c.N(3000, 60000); i < n; i++ {
				c04Check(c, c04GenOptsCase(r, ties))
			}
			for _, tb := range ties { // every valid --tiebreak string alone, without --scheme, and after another one
				c04Check(c, c04Case{Kind: "opts", Cfg: true, Opts: []c04Opt{{K: "tiebreak", V: tb}}})
				c04Check(c, c04Case{Kind: "opts", Cfg: true, Opts: []c04Opt{{K: "tiebreak", V: Pick(r, ties), Where: r.Intn(3)}, {K: "tiebreak", V: tb}}})
			}
		}
		// in-process Matcher.scan with any number of partitions
		for i, n := 0, c.N(300, 8000); i < n; i++ {
			size := Pick(r, []int{0, 1, 2, 3, 5, 10, 30, 60, 99, 100, 101, 150, 199, 200, 201, 260, 420})
			cs := c04GenScanLike(r, "scan", scheme, size, ties)
			c04Check(c, cs)
			// the same list probed at random (indexes taken modulo the merger's length) must give the same answers
			if size > 1 {
				cs.Probes = c04GenProbes(r, size, false)
				c04Check(c, cs)
			}
		}
		for _, size := range []int{3199, 3200, 3201} {
			cs := c04GenScanLike(r, "scan", scheme, size, ties)
			cs.Partitions = 32
			c04Check(c, cs)
		}
		// the fzf process
		for i, n := 0, c.N(80, 2000); i < n; i++ {
			size := Pick(r, []int{0, 1, 2, 3, 5, 10, 30, 60, 99, 100, 101, 150, 250, 420})
			c04Check(c, c04GenScanLike(r, "proc", scheme, size, ties))
		}
		for _, size := range []int{0, 1, 99, 100, 101, 3199, 3200, 3201} {
			c04Check(c, c04GenScanLike(r, "proc", scheme, size, ties))
		}
		// the fzf process under a whole command line: no --scheme / several --tiebreak / --scheme after --tiebreak /
		// --sort, --no-sort, --tac, --no-tac repeated / parts of it in $FZF_DEFAULT_OPTS(_FILE)
		for i, n := 0, c.N(70, 2000); i < n; i++ {
			size := Pick(r, []int{2, 3, 5, 10, 30, 60, 100, 101, 150, 250})
			c04Check(c, c04GenCfgProc(r, scheme, size, ties))
		}
		if c.Thorough() && scheme == 0 {
			for _, tb := range ties { // every --tiebreak string as the only option (no --scheme)
				cs := c04GenCfgProc(r, scheme, 100+r.Intn(200), ties)
				cs.Opts = []c04Opt{{K: "tiebreak", V: tb, Form: r.Intn(2), Where: Pick(r, []int{0, 0, 1, 2})}}
				c04Check(c, cs)
			}
		}
		big := c.N(1, 4)
		for i := 0; i < big; i++ {
			c04Check(c, c04GenScanLike(r, "proc", scheme, 20000+r.Intn(15000), ties))
		}
		if c.Thorough() {
			// every --tiebreak string with this scheme
			for _, tb := range ties {
				cs := c04GenScanLike(r, "proc", scheme, 150+r.Intn(200), ties)
				cs.Tiebreak = tb
				c04Check(c, cs)
			}
		}
	}
}

func init() { runners["C04"] = runC04 }
