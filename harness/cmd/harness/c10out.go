package main

// C10, second part — what is printed / searched / substituted for the selected fields:
// StripLastDelimiter, --accept-nth (plain list and template), --with-nth templates, the texts --nth searches,
// {N} placeholders of command templates; plus the generators of regular-expression delimiters of every shape
// (pure literals written as regular expressions included).
// Spec ops 1017..1020 (FieldSpec.output_text, search_texts, render_template, placeholder_text) are evaluated
// on the implementation's outputs (kind "spec"); model ops 1006, 1021, 1022 are compared (kind "corr").

import (
	"fmt"
	"regexp"
	"strconv"
	"strings"
	"unicode"
	"unicode/utf8"

	fzf "github.com/junegunn/fzf/src"
)

// one holder of a --with-nth / --accept-nth template
type c10Part struct {
	T     int       `json:"t"` // 0 literal text S | 1 {n} | 2 {Exprs}
	S     string    `json:"s,omitempty"`
	Exprs []c10Expr `json:"exprs,omitempty"`
}

func c10Template(ps []c10Part) string {
	var b strings.Builder
	for _, p := range ps {
		switch p.T {
		case 0:
			b.WriteString(p.S)
		case 1:
			b.WriteString("{n}")
		default:
			b.WriteString("{" + c10ExprList(p.Exprs) + "}")
		}
	}
	return b.String()
}

func c10ExprsVal(es []c10Expr) Val {
	out := make([]Val, len(es))
	for i, e := range es {
		out[i] = e.Val()
	}
	return L(out...)
}

func c10ExprsValid(es []c10Expr) bool {
	for _, e := range es {
		if !e.documented() || e.negpos() {
			return false
		}
	}
	return len(es) > 0
}

func c10RangesVal(es []c10Expr) (Val, bool) {
	ranges, err := fzf.VerifSplitNth(c10ExprList(es))
	if err != nil {
		return L(), false
	}
	out := make([]Val, len(ranges))
	for i, r := range ranges {
		b, e := fzf.VerifRangeParts(r)
		out[i] = L(I(b), I(e))
	}
	return L(out...), true
}

// the text each expression selects from the documented fields (spec, op 1014)
func c10Sels(c *Ctx, es []c10Expr, fields, lead Val) []string {
	out := make([]string, len(es))
	for i, e := range es {
		out[i] = c.Model.Call(1014, L(e.Val(), fields, I(len(lead.L)))).L[0].RuneStr()
	}
	return out
}

func c10FieldsText(c *Ctx, es []c10Expr, fields, lead Val) string {
	return strings.Join(c10Sels(c, es, fields, lead), "")
}

// the texts --nth searches, by the spec (op 1018)
func c10SearchTexts(c *Ctx, d c10D, es []c10Expr, fields, lead Val) []string {
	sels := c10Sels(c, es, fields, lead)
	r := c.Model.Call(1018, L(d.Val(sels...), c10ExprsVal(es), fields))
	out := make([]string, len(r.L))
	for i, v := range r.L {
		out[i] = v.RuneStr()
	}
	return out
}

// s without ONE trailing delimiter occurrence, then without trailing white space, by the spec (op 1017)
func c10Out(c *Ctx, d c10D, s string) string {
	return c.Model.Call(1017, L(d.Val(s), Runes([]rune(s)))).RuneStr()
}

func c10Subseq(q, s []rune) bool {
	i := 0
	for _, ch := range s {
		if i < len(q) && q[i] == ch {
			i++
		}
	}
	return i == len(q)
}

// invalid UTF-8 bytes are single U+FFFD characters on both sides
func c10Norm(s string) string { return string([]rune(s)) }

// ---- StripLastDelimiter on any text -----------------------------------------------------------------
func c10Strip(c *Ctx, cs c10Case) {
	d, err := c10MakeDelim(cs.Delim)
	if err != nil {
		return
	}
	var got string
	if p := c10Guard(func() { got = fzf.StripLastDelimiter(cs.Str, d.d) }); p != "" {
		c10Bad(c, "spec", "total", cs, "panic: "+p, "no panic")
		return
	}
	c.Rep.ImplTraces++
	c.Rep.SpecChecks++
	want := c10Out(c, d, cs.Str)
	if c10Norm(got) != want {
		c10Bad(c, "spec", "strip_last_delimiter_only", cs, got, want)
	}
	if mv := c.Model.Call(1006, L(Runes([]rune(cs.Str)), d.Val(cs.Str))); !mv.Equal(Runes([]rune(got))) {
		c10Bad(c, "corr", "corr:C10.strip_last_delimiter", cs, got, mv.String())
	}
	c.Rep.Eval(c10Key(cs), want != c10Norm(cs.Str))
	c.Rep.Count(fmt.Sprintf("strip:delim=%d", d.kind))
	if want != strings.TrimRightFunc(c10Norm(cs.Str), unicode.IsSpace) {
		c.Rep.Count("strip:delimiter_removed")
	}
}

// template values for the spec ([0,text] | [1] | [2,[expr...]]) and the model ([2,[range...]])
func c10PartsVals(ps []c10Part) (spec Val, model Val, ok bool) {
	sv, mv := []Val{}, []Val{}
	for _, p := range ps {
		switch p.T {
		case 0:
			sv = append(sv, L(I(0), Runes([]rune(p.S))))
			mv = append(mv, L(I(0), Runes([]rune(p.S))))
		case 1:
			sv = append(sv, L(I(1)))
			mv = append(mv, L(I(1)))
		default:
			if !c10ExprsValid(p.Exprs) {
				return L(), L(), false
			}
			rv, rok := c10RangesVal(p.Exprs)
			if !rok {
				return L(), L(), false
			}
			sv = append(sv, L(I(2), c10ExprsVal(p.Exprs)))
			mv = append(mv, L(I(2), rv))
		}
	}
	return L(sv...), L(mv...), true
}

// what a template (or, with no parts, the plain list es) yields for one line, by the spec and by the model
func c10Render(c *Ctx, d c10D, line string, ps []c10Part, es []c10Expr, index int, accept bool) (spec string, model Val, ok bool) {
	lead, fields, _ := c10SpecFields(c, line, d)
	lineR := Runes([]rune(line))
	acc := 0
	if accept {
		acc = 1
	}
	if len(ps) == 0 {
		if !c10ExprsValid(es) {
			return "", L(), false
		}
		rv, rok := c10RangesVal(es)
		if !rok {
			return "", L(), false
		}
		ft := c10FieldsText(c, es, fields, lead)
		if !accept {
			tv := c.Model.Call(1003, L(c.Model.Call(1001, L(lineR, d.Val(line))), rv))
			joined := []Val{}
			for _, t := range tv.L {
				if len(t.L) == 2 {
					joined = append(joined, t.L[0].L...)
				}
			}
			return ft, L(joined...), true
		}
		return c10Out(c, d, ft), c.Model.Call(1007, L(lineR, rv, d.Val(line, ft))), true
	}
	sv, mv, pok := c10PartsVals(ps)
	if !pok {
		return "", L(), false
	}
	texts := []string{line}
	for _, p := range ps {
		if p.T == 2 {
			texts = append(texts, c10FieldsText(c, p.Exprs, fields, lead))
		}
	}
	plain := c.Model.Call(1019, L(d.Val(texts...), sv, fields, I(index), I(0))).RuneStr()
	texts = append(texts, plain)
	spec = plain
	if accept {
		spec = c.Model.Call(1019, L(d.Val(texts...), sv, fields, I(index), I(1))).RuneStr()
	}
	return spec, c.Model.Call(1021, L(mv, lineR, d.Val(texts...), I(index), I(acc))), true
}

// ---- nthTransformer / acceptNth at hook level: plain lists and templates -------------------------------------
func c10Tmpl(c *Ctx, cs c10Case) {
	d, err := c10MakeDelim(cs.Delim)
	if err != nil {
		return
	}
	accept := cs.Mode == "accept-nth"
	tmpl := c10Template(cs.Parts)
	if len(cs.Parts) == 0 {
		tmpl = c10ExprList(cs.Exprs)
	}
	want, mv, ok := c10Render(c, d, cs.Line, cs.Parts, cs.Exprs, cs.Index, accept)
	if !ok {
		c.Rep.Count("tmpl:rejected")
		return
	}
	factory, ferr := fzf.VerifNthTransformer(tmpl)
	if ferr != nil {
		c10Bad(c, "spec", "documented_expression_accepted", cs, tmpl+" rejected: "+ferr.Error(), "accepted")
		return
	}
	var got string
	if p := c10Guard(func() {
		tr := factory(d.d)
		if accept {
			got = fzf.VerifAcceptNth(cs.Line, d.d, tr, int32(cs.Index))
		} else {
			got = tr(fzf.Tokenize(cs.Line, d.d), int32(cs.Index))
		}
	}); p != "" {
		c10Bad(c, "spec", "total", cs, "panic: "+p, "no panic")
		return
	}
	c.Rep.ImplTraces++
	c.Rep.SpecChecks++
	name := "template_selects_fields"
	if len(cs.Parts) == 0 {
		name = "with_nth_selects_fields"
		if accept {
			name = "accept_nth_prints_exactly_selected_fields"
		}
	}
	if c10Norm(got) != want {
		c10Bad(c, "spec", name, cs, got, want)
	}
	if !mv.Equal(Runes([]rune(got))) {
		c10Bad(c, "corr", "corr:C10.nth_transformer", cs, got, mv.String())
	}
	c.Rep.Eval(c10Key(cs), want != "")
	c.Rep.Count(fmt.Sprintf("tmpl:delim=%d", d.kind))
	if len(cs.Parts) > 0 {
		c.Rep.Count("tmpl:template")
	}
	if accept {
		c.Rep.Count("tmpl:accept-nth")
	}
}

// ---- {EXPR,...} of a command template (r flag: before quoting) ---------------------------------------------
func c10Placeholder(c *Ctx, cs c10Case) {
	d, err := c10MakeDelim(cs.Delim)
	if err != nil || !c10ExprsValid(cs.Exprs) {
		return
	}
	rv, rok := c10RangesVal(cs.Exprs)
	if !rok {
		return
	}
	preserve := strings.Contains(cs.Flags, "s")
	flags := cs.Flags
	if !strings.Contains(flags, "r") {
		flags += "r"
	}
	tmpl := "{" + flags + c10ExprList(cs.Exprs) + "}"
	var got string
	if p := c10Guard(func() { got = fzf.VerifExpandFields(tmpl, d.d, cs.Line, int32(cs.Index)) }); p != "" {
		c10Bad(c, "spec", "total", cs, "panic: "+p, "no panic")
		return
	}
	c.Rep.ImplTraces++
	lead, fields, _ := c10SpecFields(c, cs.Line, d)
	ft := c10FieldsText(c, cs.Exprs, fields, lead)
	want := c.Model.Call(1020, L(d.Val(ft), B(preserve), c10ExprsVal(cs.Exprs), fields)).RuneStr()
	c.Rep.SpecChecks++
	if c10Norm(got) != want {
		c10Bad(c, "spec", "placeholder_selects_fields", cs, fmt.Sprintf("%s -> %q", tmpl, got), fmt.Sprintf("%q", want))
	}
	if mv := c.Model.Call(1022, L(Runes([]rune(cs.Line)), rv, d.Val(cs.Line, ft), B(preserve))); !mv.Equal(Runes([]rune(got))) {
		c10Bad(c, "corr", "corr:C10.placeholder_fields", cs, got, mv.String())
	}
	c.Rep.Eval(c10Key(cs), want != "")
	c.Rep.Count(fmt.Sprintf("ph:delim=%d", d.kind))
}

// ---- the fzf process with a template ------------------------------------------------------------------------
func c10ProcTemplate(c *Ctx, cs c10Case, d c10D, args []string) {
	tmpl := c10Template(cs.Parts)
	if cs.Mode == "accept-nth" {
		line := cs.Lines[0]
		want, mv, ok := c10Render(c, d, line, cs.Parts, nil, 0, true)
		if !ok {
			return
		}
		args = append(args, "--select-1", "--accept-nth", tmpl)
		out, errs, code := RunFzf(c, args, []byte(line+"\n"))
		c.Rep.ImplTraces++
		c.Rep.SpecChecks++
		if code != 0 || out != want+"\n" {
			c10Bad(c, "spec", "template_selects_fields(process)", cs, fmt.Sprintf("exit %d stdout %q stderr %q", code, out, errs), want+"\n")
		}
		if code != 0 || out != mv.RuneStr()+"\n" {
			c10Bad(c, "corr", "corr:C10.process_accept_nth_template", cs, fmt.Sprintf("exit %d stdout %q stderr %q", code, out, errs), mv.RuneStr()+"\n")
		}
		c.Rep.Eval(c10Key(cs), want != "")
		c.Rep.Count("proc:accept-nth-template")
		return
	}
	args = append(args, "--with-nth", tmpl, "--filter", cs.Query, "--exact", "+i", "--no-sort", "--literal")
	out, errs, code := RunFzf(c, args, []byte(strings.Join(cs.Lines, "\n")+"\n"))
	c.Rep.ImplTraces++
	got := []string{}
	if out != "" {
		got = strings.Split(strings.TrimSuffix(out, "\n"), "\n")
	}
	want, wantM := []string{}, []string{}
	for k, line := range cs.Lines {
		text, mv, ok := c10Render(c, d, line, cs.Parts, nil, k, false)
		if !ok {
			return
		}
		if strings.Contains(text, cs.Query) {
			want = append(want, line)
		}
		if strings.Contains(mv.RuneStr(), cs.Query) {
			wantM = append(wantM, line)
		}
	}
	c.Rep.SpecChecks += len(cs.Lines)
	if (code != 0 && code != 1) || strings.Join(got, "\n") != strings.Join(want, "\n") {
		c10Bad(c, "spec", "template_selects_fields(process)", cs, fmt.Sprintf("exit %d stdout %q stderr %q", code, out, errs), want)
	}
	if (code != 0 && code != 1) || strings.Join(got, "\n") != strings.Join(wantM, "\n") {
		c10Bad(c, "corr", "corr:C10.process_with_nth_template", cs, fmt.Sprintf("exit %d stdout %q stderr %q", code, out, errs), wantM)
	}
	c.Rep.Eval(c10Key(cs), len(got) > 0 && len(got) < len(cs.Lines))
	c.Rep.Count("proc:with-nth-template")
}

// ---- generators -----------------------------------------------------------------------------------------------

// strings that serve as delimiters, written below as regular expressions of many shapes
var c10LitPool = []string{"||", "--*", "a.b", "::", "->", "=>", "+", "|", ".", "$$", "()", "[x]", "**", "?", "^", ", ", " - ",
	"/src/", "é|", "中.", "ab", "x", "sep", "--", ",", ";", "\t", "aba"}

// multi-character plain-string delimiters (the characters of a field may also occur in the delimiter)
var c10LitDelims = []string{"/src/", "->", "--", ", ", "=>", "aba", "ab", "::", "||", "-*-", "中文", ",;"}

// a regular expression delimiter and the strings it matches (registered in c10RegexSeps for the line generator).
// Shapes 0..5 and 10 are complete literals for the regexp compiler; 6..9 are not.
func c10GenRegexDelim(r *RNG) string {
	lit := Pick(r, c10LitPool)
	q := regexp.QuoteMeta(lit)
	rs := []rune(lit)
	re := q
	seps := []string{lit}
	switch r.Intn(12) {
	case 0, 1:
	case 2:
		re = "(" + q + ")"
	case 3:
		re = "(?:" + q + ")"
	case 4:
		same := true
		for _, ch := range rs {
			same = same && ch == rs[0]
		}
		if same && len(rs) > 1 {
			re = "[" + regexp.QuoteMeta(string(rs[0])) + "]{" + strconv.Itoa(len(rs)) + "}"
		} else {
			re = ""
			for _, ch := range rs {
				re += "[" + regexp.QuoteMeta(string(ch)) + "]"
			}
		}
	case 5:
		re = "\\Q" + lit + "\\E"
	case 6:
		lit2 := Pick(r, c10LitPool)
		re = q + "|" + regexp.QuoteMeta(lit2)
		seps = []string{lit, lit2}
	case 7:
		re = "(?:" + q + ")+"
		seps = []string{lit, lit + lit, lit + lit + lit}
	case 8:
		re = "(?i)" + q
		seps = []string{lit, strings.ToUpper(lit)}
	case 9:
		re = "(?:" + q + ")?"
	case 10:
		re = q + "{1}"
	default:
		re = "(?:" + q + "){1,2}"
		seps = []string{lit, lit + lit}
	}
	if _, err := regexp.Compile(re); err != nil {
		re = q
		seps = []string{lit}
	}
	if _, ok := c10RegexSeps[re]; !ok {
		c10RegexSeps[re] = seps
	}
	return re
}

// 1..3 characters of one of the separators: field content that looks like a piece of the delimiter
func c10DelimPiece(r *RNG, seps []string) string {
	rs := []rune(Pick(r, seps))
	if len(rs) == 0 {
		return ""
	}
	out := []rune{}
	for k := r.Range(1, 3); k > 0; k-- {
		out = append(out, rs[r.Intn(len(rs))])
	}
	return string(out)
}

func c10GenValidExpr(r *RNG, bound int) c10Expr {
	e := c10GenExpr(r, bound)
	for !e.documented() || e.negpos() {
		e = c10GenExpr(r, bound)
	}
	return e
}

func c10GenValidExprs(r *RNG, lo, hi, bound int) []c10Expr {
	es := []c10Expr{}
	for k := r.Range(lo, hi); k > 0; k-- {
		es = append(es, c10GenValidExpr(r, bound))
	}
	return es
}

func c10GenParts(r *RNG) []c10Part {
	ps := []c10Part{}
	if r.Chance(1, 2) {
		ps = append(ps, c10Part{T: 0, S: Pick(r, []string{"<", "[", "#", "n=", ": ", " ", "x", "1,2", "{", "}"})})
	}
	nf := 0
	for k := r.Range(1, 3); k > 0; k-- {
		if r.Chance(1, 5) {
			ps = append(ps, c10Part{T: 1})
		} else {
			ps = append(ps, c10Part{T: 2, Exprs: c10GenValidExprs(r, 1, 2, Pick(r, []int{2, 3, 4, 6}))})
			nf++
		}
		if r.Chance(2, 3) {
			ps = append(ps, c10Part{T: 0, S: Pick(r, []string{">", "]", ",", ", ", " ", "  ", "|", "-", ":", "/", "é", ".", "}{", " {} "})})
		}
	}
	if nf == 0 {
		ps = append(ps, c10Part{T: 2, Exprs: c10GenValidExprs(r, 1, 1, 3)})
	}
	return ps
}

// a query for the process level taken from the lines themselves: 1..3 consecutive characters, delimiter
// characters included; characters with a meaning in fzf's query language and white space are avoided
func c10GenProcQuery2(r *RNG, lines []string) string {
	for try := 0; try < 8; try++ {
		rs := []rune(Pick(r, lines))
		if len(rs) == 0 {
			continue
		}
		i := r.Intn(len(rs))
		if r.Chance(1, 2) { // biased to the end of the line
			i = len(rs) - 1 - r.Intn(min(len(rs), 4))
		}
		q := rs[i:min(len(rs), i+r.Range(1, 3))]
		ok := len(q) > 0
		for _, ch := range q {
			if unicode.IsSpace(ch) || strings.ContainsRune("'^$!|\\", ch) || ch == utf8.RuneError || ch < 32 {
				ok = false
			}
		}
		if ok {
			return string(q)
		}
	}
	return c10GenProcQuery(r, Pick(r, lines))
}

// small-scope sweep of the output side: every valid expression with bounds -3..3 (accept-nth) / -2..2 (--nth)
// on lines whose fields end in delimiter characters, with empty fields, trailing and doubled delimiters
func c10OutputSweep(c *Ctx) {
	type dl struct {
		d   c10Delim
		sep string
	}
	valid := func(lo, hi int) []c10Expr {
		out := []c10Expr{}
		for _, e := range c10AllExprs(lo, hi) {
			if e.documented() && !e.negpos() {
				out = append(out, e)
			}
		}
		return out
	}
	acc, nth := valid(-3, 3), valid(-2, 2)
	for _, x := range []dl{{c10Delim{K: 0}, " "}, {c10Delim{K: 1, S: ","}, ","}, {c10Delim{K: 1, S: "->"}, "->"},
		{c10Delim{K: 1, S: "/src/"}, "/src/"}, {c10Delim{K: 2, S: ",+"}, ","}, {c10Delim{K: 2, S: "\\|\\|"}, "||"}} {
		s := x.sep
		rs := []rune(s)
		head, tail := string(rs[0]), string(rs[len(rs)-1])
		lines := []string{
			"a1" + s + "b2" + s + "c3",
			"a1" + s + "b2" + s + "c3" + s,
			"a1" + s + s + "b2",
			"a1" + head + s + "b2" + tail + s + "c3" + tail,
			"a1 " + s + " b2\t" + s,
			s + s,
			"a1" + tail + head + s + tail,
		}
		for _, line := range lines {
			for _, e := range acc {
				c10Check(c, c10Case{Kind: "tmpl", Mode: "accept-nth", Line: line, Delim: x.d, Exprs: []c10Expr{e}})
			}
			for _, e := range nth {
				c10Check(c, c10Case{Kind: "nth", Line: line, Delim: x.d, Exprs: []c10Expr{e}, Query: "2" + tail})
			}
		}
	}
	c.Rep.Extra["exhaustive_scope_output"] = "accept-nth: every valid expression with bounds -3..3, --nth searched texts: bounds -2..2, x {awk, literal , -> /src/, regexp ,+ \\|\\|} x 7 line shapes (plain, trailing delimiter, empty field, fields ending in delimiter characters, blanks before the delimiter, delimiters only, mixed)"
}
