package main

// C13, the loading side with SEVERAL pushers.  Reader.readFiles hands the pusher to fastwalk, which calls it from many
// goroutines at once; everything behind the pusher (ChunkList.Push running core.go's stateful ItemBuilder: header lines,
// running item index) has to behave as if ONE reader had read the lines in the order in which the pushes were committed.
//
//  J  pushers: K goroutines push their own lines through a real ChunkList whose builder is core.go's reduced to header
//     lines + running index (hook VerifHeaderItemBuilder); a snapshotter takes Snapshot(tail) meanwhile.
//     Spec on what the implementation holds (every snapshot, and the list once everybody is done):
//       counts_consistent(pushers)              the count returned with a snapshot is the number of items it holds
//       item_indexes_number_positions(pushers)  the i-th item of a snapshot has index first+i (Coq: numbering_gaps, op 1341)
//       snapshot_immutable(pushers)             a snapshot read again at the end reads the same
//       items_never_change(pushers)             one index, one text, in every snapshot
//       snapshot_is_frozen_prefix(pushers)      (no --tail) a snapshot is a prefix of the final list
//       loaded_equals_pushed(pushers)           header + items = the lines pushed, each exactly once, every pusher's in its order
//       item_builder_serialised(pushers)        the stateful builder is never entered by two pushers at once
//       loading_equals_one_reader(pushers)      header, numbering, snapshots = ONE reader on the commit order (Coq spec, op 1342)
//     Correspondence: the extracted loader model under the schedule read off the final list (op 1340).
//  K  walk: the same list fed by the REAL walker (Reader.readFiles over a generated directory tree; hook VerifNewWalk):
//     the pushers are fastwalk's workers.  Same spec; "the lines pushed" = an independent sequential walk of the tree.
//  L  walksession: the real fzf in a pty, stdin a terminal, no FZF_DEFAULT_COMMAND: the built-in walker loads the tree
//     while the initial query is being searched.  Once loading has ended: counts, item indexes (every index once,
//     0..n-1), the listed paths = the tree; a query lists the sequential filter of the paths (a fresh fzf --filter);
//     select-all+accept prints every path exactly once.  Thorough tier: the same against a -race build of fzf.
//
// The schedule of the goroutines is the runtime's: a case is run Iters times (all from c.Rng: sizes, lines, pauses,
// options); safety checks need no retry (one bad snapshot is a violation), eventually-checks have generous deadlines.

import (
	"encoding/json"
	"errors"
	"fmt"
	"io/fs"
	"os"
	"path/filepath"
	"runtime"
	"sort"
	"strconv"
	"strings"
	"sync"
	"sync/atomic"
	"time"

	fzf "github.com/junegunn/fzf/src"
)

type c13LoadCase struct {
	Pushers int    `json:"pushers,omitempty"`
	Per     int    `json:"per,omitempty"`    // lines per pusher
	HLines  int    `json:"hlines,omitempty"` // --header-lines
	Tail    int    `json:"tail,omitempty"`   // --tail
	Snaps   int    `json:"snaps,omitempty"`  // at most this many snapshots while loading
	Yield   int    `json:"yield,omitempty"`  // a pusher yields the processor after every Yield-th push
	Iters   int    `json:"iters"`
	Seed    uint64 `json:"seed"`
	// walk / walksession: the tree
	Dirs   int      `json:"dirs,omitempty"`
	Files  int      `json:"files,omitempty"` // files per directory
	Sub    int      `json:"sub,omitempty"`   // sub-directories per directory (one more level, Files each)
	Args   []string `json:"args,omitempty"`  // walksession: further options
	Query0 string   `json:"query0,omitempty"`
	Query  string   `json:"query,omitempty"`
}

type c13LoadSnap struct {
	chunks  []*fzf.Chunk
	count   int
	changed bool
	idx     []int
	text    []string
	lens    []int
}

func c13ReadSnap(chunks []*fzf.Chunk) (idx []int, text []string, lens []int) {
	for _, ch := range chunks {
		n := fzf.VerifCellCount(ch)
		lens = append(lens, n)
		for k := 0; k < n && k < 100; k++ {
			it := fzf.VerifCellItem(ch, k)
			idx = append(idx, int(fzf.VerifItemIndex(it)))
			text = append(text, fzf.VerifItemText(it))
		}
	}
	return
}

type c13LoadObs struct {
	snaps    []c13LoadSnap // in the order they were taken; the last one after every pusher was done
	header   []string
	next     int
	overlaps int
	pan      string
}

// one run: `feed` calls push from as many goroutines as it likes and returns when all of them are done.
// A panic inside Push leaves the list's mutex locked (Push does not defer the unlock): everybody else then blocks for
// good.  The run is therefore made by a goroutine of its own; the first panic (or 30 s without an end) ends the
// observation, the blocked goroutines are left behind.
func c13LoadOnce(lc *c13LoadCase, r *RNG, feed func(push func([]byte) bool)) c13LoadObs {
	panCh := make(chan string, 64)
	resCh := make(chan c13LoadObs, 1)
	guard := func() {
		if rc := recover(); rc != nil {
			select {
			case panCh <- fmt.Sprint(rc):
			default:
			}
		}
	}
	go func() {
		defer guard()
		var obs c13LoadObs
		var next int32
		header := []string{}
		inner := fzf.VerifHeaderItemBuilder(&next, lc.HLines, &header)
		builder := inner
		var inside, overlaps int32
		if !c13InChild() { // under the race detector the builder runs bare (atomics would order the accesses)
			builder = func(item *fzf.Item, data []byte) bool {
				if atomic.AddInt32(&inside, 1) > 1 {
					atomic.AddInt32(&overlaps, 1)
				}
				ok := inner(item, data)
				atomic.AddInt32(&inside, -1)
				return ok
			}
		}
		cl := fzf.NewChunkList(fzf.NewChunkCache(), builder)
		var snaps []c13LoadSnap
		take := func() {
			s, cnt, chg := cl.Snapshot(lc.Tail)
			idx, text, lens := c13ReadSnap(s)
			snaps = append(snaps, c13LoadSnap{s, cnt, chg, idx, text, lens})
		}
		done := make(chan struct{})
		var sw sync.WaitGroup
		sw.Add(1)
		go func() { // the searcher's side: snapshots while loading
			defer sw.Done()
			defer guard()
			for k := 0; k < lc.Snaps; k++ {
				select {
				case <-done:
					return
				default:
				}
				if p := r.Intn(4); p == 0 {
					runtime.Gosched()
				} else {
					time.Sleep(time.Duration(r.Intn(150)) * time.Microsecond)
				}
				take()
			}
		}()
		feed(func(b []byte) bool {
			defer guard()
			return cl.Push(b)
		})
		close(done)
		sw.Wait()
		take()
		obs.snaps = snaps
		obs.header = append([]string{}, header...)
		obs.next = int(next)
		obs.overlaps = int(atomic.LoadInt32(&overlaps))
		resCh <- obs
	}()
	select {
	case obs := <-resCh:
		select {
		case p := <-panCh:
			obs.pan = p
		default:
		}
		return obs
	case p := <-panCh:
		return c13LoadObs{pan: p}
	case <-time.After(30 * time.Second):
		return c13LoadObs{pan: "hang: loading did not end within 30 s"}
	}
}

func c13PusherLines(lc *c13LoadCase) [][]string {
	r := NewRNG(lc.Seed ^ 0x10ad)
	qs := make([][]string, lc.Pushers)
	for p := range qs {
		qs[p] = make([]string, lc.Per)
		for k := range qs[p] {
			qs[p][k] = fmt.Sprintf("dir%d/file%05d.%s", p, k, Pick(r, []string{"go", "c", "txt", "md", "x"}))
		}
	}
	return qs
}

func c13FeedPushers(lc *c13LoadCase, qs [][]string) func(push func([]byte) bool) {
	return func(push func([]byte) bool) {
		start := make(chan struct{})
		var wg sync.WaitGroup
		for p := range qs {
			wg.Add(1)
			go func(p int) {
				defer wg.Done()
				<-start
				for k, l := range qs[p] {
					push([]byte(l))
					if lc.Yield > 0 && k%lc.Yield == p%lc.Yield {
						runtime.Gosched()
					}
				}
			}(p)
		}
		close(start)
		wg.Wait()
	}
}

// the -race child of the thorough tier has no model driver: it runs the direct checks only
func c13InChild() bool { return os.Getenv("VERIF_C13_CHILD") != "" }

type c13LoadFail struct {
	name, impl, expect string
}

func c13Consecutive(idx []int) int { // first position whose index is not its predecessor's + 1, or -1
	for i := 1; i < len(idx); i++ {
		if idx[i] != idx[i-1]+1 {
			return i
		}
	}
	return -1
}

// the spec, evaluated on one run's observations.  pushed: what each pusher pushed, in its order (nil entries allowed:
// then only the multiset `all` is known - the walker); all: every line pushed
func c13LoadJudge(c *Ctx, lc *c13LoadCase, obs c13LoadObs, qs [][]string, all []string, sfx string) *c13LoadFail {
	rep := c.Rep
	if obs.pan != "" {
		name := "no_crash"
		if strings.HasPrefix(obs.pan, "hang:") {
			name = "loading_terminates"
		}
		return &c13LoadFail{name + sfx, obs.pan, "every line pushed is taken, no panic"}
	}
	final := obs.snaps[len(obs.snaps)-1]
	byIdx := map[int]string{}
	for i, s := range obs.snaps {
		c13Inc(&rep.SpecChecks, 4)
		total := len(s.idx)
		sum := 0
		for _, n := range s.lens {
			sum += n
		}
		if s.count != total || fzf.CountItems(s.chunks) != total || sum != total {
			return &c13LoadFail{"counts_consistent" + sfx, fmt.Sprintf("snapshot #%d of %d: count=%d CountItems=%d, chunk counts %v hold %d items", i, len(obs.snaps), s.count, fzf.CountItems(s.chunks), s.lens, total),
				"the count returned with a snapshot is the number of items in its chunks"}
		}
		bad := c13Consecutive(s.idx)
		if total <= 3000 && !c13InChild() { // the Coq spec itself; the Go restatement above is tied to it here
			gaps := c.Model.Call(1341, Ints(s.idx))
			if (len(gaps.L) == 0) != (bad < 0) || (bad >= 0 && int(gaps.L[0].I) != bad) {
				rep.Disagreement(Disagreement{Kind: "corr", Name: "corr:C13.numbering_restatement", Input: c13Case{Kind: "pushers", Load: lc},
					Impl: fmt.Sprint(bad), Expect: gaps.String()})
			}
		}
		if bad >= 0 {
			n := 0
			for k := 1; k < total; k++ {
				if s.idx[k] != s.idx[k-1]+1 {
					n++
				}
			}
			return &c13LoadFail{"item_indexes_number_positions" + sfx,
				fmt.Sprintf("snapshot #%d of %d (%d items, first index %d): the item at position %d (%q) has index %d, its predecessor (%q) has index %d; %d such places",
					i, len(obs.snaps), total, s.idx[0], bad, s.text[bad], s.idx[bad], s.text[bad-1], s.idx[bad-1], n),
				"every item's index is its predecessor's + 1 (no index twice, list order = index order)"}
		}
		idx2, text2, _ := c13ReadSnap(s.chunks)
		if !c13SameInts(idx2, s.idx) || strings.Join(text2, "\x00") != strings.Join(s.text, "\x00") {
			return &c13LoadFail{"snapshot_immutable" + sfx, fmt.Sprintf("snapshot #%d read again at the end: %d items, was %d (or their texts/indexes differ)", i, len(idx2), total), "unchanged"}
		}
		for k, ix := range s.idx {
			if t, ok := byIdx[ix]; ok && t != s.text[k] {
				return &c13LoadFail{"items_never_change" + sfx, fmt.Sprintf("item %d reads %q in snapshot #%d, it read %q before", ix, s.text[k], i, t), "one index, one text"}
			}
			byIdx[ix] = s.text[k]
		}
		if lc.Tail == 0 {
			if total > len(final.idx) {
				return &c13LoadFail{"snapshot_is_frozen_prefix" + sfx, fmt.Sprintf("snapshot #%d has %d items, the final list %d", i, total, len(final.idx)), "a prefix of the final list"}
			}
			for k := range s.idx {
				if s.idx[k] != final.idx[k] || s.text[k] != final.text[k] {
					return &c13LoadFail{"snapshot_is_frozen_prefix" + sfx, fmt.Sprintf("snapshot #%d position %d: item %d %q, the final list has item %d %q there", i, k, s.idx[k], s.text[k], final.idx[k], final.text[k]),
						"a prefix of the final list"}
				}
			}
		}
		if s.changed {
			rep.Count("load:snapshot_trimmed")
		}
	}
	// everything pushed has arrived, once
	c13Inc(&rep.SpecChecks, 3)
	wantH := lc.HLines
	if wantH > len(all) {
		wantH = len(all)
	}
	accepted := len(all) - wantH
	if len(obs.header) != wantH {
		return &c13LoadFail{"loaded_equals_pushed" + sfx, fmt.Sprintf("%d header lines", len(obs.header)), fmt.Sprintf("%d (--header-lines=%d, %d lines pushed)", wantH, lc.HLines, len(all))}
	}
	if obs.next != accepted {
		return &c13LoadFail{"item_counter_counts_items" + sfx, fmt.Sprintf("the item counter stands at %d after %d lines were pushed (%d of them header lines)", obs.next, len(all), wantH),
			fmt.Sprint(accepted)}
	}
	wantFinal := accepted
	if lc.Tail > 0 && accepted > lc.Tail {
		wantFinal = lc.Tail
	}
	if len(final.idx) != wantFinal {
		return &c13LoadFail{"loaded_equals_pushed" + sfx, fmt.Sprintf("the list holds %d items once every pusher is done", len(final.idx)),
			fmt.Sprintf("%d (%d lines pushed, %d header lines, tail %d)", wantFinal, len(all), wantH, lc.Tail)}
	}
	if wantFinal > 0 && final.idx[len(final.idx)-1] != accepted-1 {
		return &c13LoadFail{"item_indexes_number_positions" + sfx, fmt.Sprintf("the last item has index %d", final.idx[len(final.idx)-1]), fmt.Sprintf("%d (items are numbered from 0)", accepted-1)}
	}
	left := map[string]int{}
	for _, l := range all {
		left[l]++
	}
	for _, l := range append(append([]string{}, obs.header...), final.text...) {
		if left[l] == 0 {
			return &c13LoadFail{"loaded_equals_pushed" + sfx, fmt.Sprintf("%q is in the list (or header) more often than it was pushed", l), "every line pushed, exactly once"}
		}
		left[l]--
	}
	if lc.Tail == 0 {
		for l, n := range left {
			if n != 0 {
				return &c13LoadFail{"loaded_equals_pushed" + sfx, fmt.Sprintf("%q was pushed but is neither in the list nor in the header", l), "every line pushed, exactly once"}
			}
		}
	}
	if obs.overlaps > 0 {
		return &c13LoadFail{"item_builder_serialised" + sfx, fmt.Sprintf("the item builder (shared header and item counter, no lock of its own) was entered %d times while another pusher was inside it", obs.overlaps),
			"Push runs the builder for one pusher at a time"}
	}
	if qs == nil || lc.Tail > 0 {
		return nil
	}
	// every pusher's lines in its order
	pos := make([]int, len(qs))
	owner := func(l string) int {
		if !strings.HasPrefix(l, "dir") {
			return -1
		}
		p, err := strconv.Atoi(l[3:strings.IndexByte(l, '/')])
		if err != nil || p >= len(qs) {
			return -1
		}
		return p
	}
	commit := append(append([]string{}, obs.header...), final.text...)
	sched := make([]int, len(commit))
	for k, l := range commit {
		p := owner(l)
		if p < 0 || pos[p] >= len(qs[p]) || qs[p][pos[p]] != l {
			return &c13LoadFail{"loaded_equals_pushed" + sfx, fmt.Sprintf("%q at position %d of header+list is not the next line of its pusher", l, k), "every pusher's lines in the order it pushed them"}
		}
		pos[p]++
		sched[k] = p
	}
	if len(all) > 4000 || c13InChild() {
		return nil
	}
	// ONE reader on the commit order (Coq spec), and the extracted model under the schedule read off the list
	id := func(p, k int) int { return p*1000000 + k }
	pos = make([]int, len(qs))
	lineID := make([]int, len(commit))
	for k, p := range sched {
		lineID[k] = id(p, pos[p])
		pos[p]++
	}
	// a snapshot with n items was taken after header+n commits (n == 0: before the first item; placed at the start)
	at := map[int][]int{}
	for i, s := range obs.snaps {
		n := len(s.idx)
		if n > 0 {
			n += len(obs.header)
		} else if len(s.lens) > 0 && len(obs.header) > 0 {
			n = 1 // an empty chunk is there: a header line had been taken (a rejected Push still allocates the chunk)
		}
		at[n] = append(at[n], i)
	}
	trace := []Val{}
	labels := []Val{}
	order := []int{}
	for k := 0; k <= len(commit); k++ {
		for _, i := range at[k] {
			trace = append(trace, L(I(1), I(lc.Tail)))
			labels = append(labels, L(I(1), I(lc.Tail)))
			order = append(order, i)
		}
		if k < len(commit) {
			trace = append(trace, L(I(0), I(lineID[k])))
			labels = append(labels, L(I(0), I(sched[k])))
		}
	}
	items := func(s c13LoadSnap) Val {
		vs := make([]Val, len(s.idx))
		for k := range s.idx {
			p := owner(s.text[k])
			kk, _ := strconv.Atoi(s.text[k][strings.IndexByte(s.text[k], '/')+5 : strings.IndexByte(s.text[k], '/')+10])
			vs[k] = L(I(s.idx[k]), I(id(p, kk)))
		}
		return L(vs...)
	}
	hv := make([]Val, len(obs.header))
	for k := range obs.header {
		hv[k] = I(lineID[k])
	}
	implSnaps := make([]Val, len(order))
	implFull := make([]Val, len(order))
	for k, i := range order {
		s := obs.snaps[i]
		implSnaps[k] = items(s)
		implFull[k] = L(I(s.count), B(s.changed), items(s), Ints(s.lens))
	}
	c13Inc(&rep.SpecChecks, 1)
	want := c.Model.Call(1342, L(I(lc.HLines), L(trace...)))
	got := L(L(implSnaps...), items(final), L(hv...))
	if !want.Equal(got) {
		return &c13LoadFail{"loading_equals_one_reader" + sfx, c13Head(got.String(), 1500), c13Head(want.String(), 1500)}
	}
	qv := make([]Val, len(qs))
	for p := range qs {
		ids := make([]int, len(qs[p]))
		for k := range ids {
			ids[k] = id(p, k)
		}
		qv[p] = Ints(ids)
	}
	mv := c.Model.Call(1340, L(I(lc.HLines), L(qv...), L(labels...)))
	// the list itself after the final snapshot: the same items, in chunks of the same lengths
	impl := L(L(implFull...), items(final), Ints(final.lens), L(hv...), I(obs.next))
	if !mv.Equal(impl) {
		rep.Disagreement(Disagreement{Kind: "corr", Name: "corr:C13.loader", Input: c13Case{Kind: "pushers", Load: lc}, Impl: c13Head(impl.String(), 1500), Expect: c13Head(mv.String(), 1500)})
	}
	rep.Count("load:model_runs")
	return nil
}

var c13LoadSpecN atomic.Int32

func c13LoadReport(c *Ctx, cs c13Case, f *c13LoadFail) {
	if c13LoadSpecN.Add(1) > 8 && c.Replay == "" {
		c.Rep.Count("load:further_failures_not_listed")
		return
	}
	c.Rep.Disagreement(Disagreement{Kind: "spec", Name: f.name, Input: cs, Impl: f.impl, Expect: f.expect})
}

func c13Pushers(c *Ctx, cs c13Case) {
	lc := cs.Load
	if lc == nil || lc.Pushers <= 0 {
		return
	}
	qs := c13PusherLines(lc)
	all := []string{}
	for _, q := range qs {
		all = append(all, q...)
	}
	key, _ := json.Marshal(cs)
	r := NewRNG(lc.Seed)
	iters := lc.Iters
	if iters < 1 {
		iters = 1
	}
	multi := 0
	for it := 0; it < iters; it++ {
		obs := c13LoadOnce(lc, r.Fork(), c13FeedPushers(lc, qs))
		c13Inc(&c.Rep.ImplTraces, 1)
		if len(obs.snaps) > 2 {
			multi++
		}
		c.Rep.CountN("load:snapshots", len(obs.snaps))
		if f := c13LoadJudge(c, lc, obs, qs, all, "(pushers)"); f != nil {
			c13LoadReport(c, cs, f)
			break
		}
	}
	c.Rep.Eval(string(key), multi > 0)
	c.Rep.Count(fmt.Sprintf("load:pushers=%d", lc.Pushers))
	if lc.Pushers*lc.Per <= 40 {
		c.Rep.Sample(cs)
	}
}

func c13GenPushers(r *RNG, big bool) c13Case {
	lc := &c13LoadCase{Pushers: Pick(r, []int{2, 2, 3, 4, 4, 8, 8, 16}), Seed: r.Next(), Iters: 3}
	if big {
		lc.Per = Pick(r, []int{1000, 2000, 5000})
		lc.Snaps = Pick(r, []int{0, 3, 8})
		lc.Iters = 2
	} else {
		lc.Per = Pick(r, []int{1, 2, 7, 25, 50, 99, 100, 101, 250, 400})
		lc.Snaps = Pick(r, []int{0, 2, 6, 20})
		lc.Iters = 4
	}
	if r.Chance(1, 3) {
		lc.HLines = Pick(r, []int{1, 2, 3, 10, 150})
	}
	if r.Chance(1, 4) {
		lc.Tail = Pick(r, []int{1, 50, 100, 101, 250, 1000})
	}
	if r.Chance(1, 2) {
		lc.Yield = Pick(r, []int{1, 2, 3, 10, 64})
	}
	return c13Case{Kind: "pushers", Load: lc}
}

// ---------------------------------------------------------------- K: the real walker

var c13TreeMu sync.Mutex
var c13Trees = map[string][]string{}

// the tree of a case (deterministic in Dirs/Files/Sub/Seed), built once per run; returns its root and its files,
// relative to the root, found by an independent sequential walk
func c13Tree(c *Ctx, lc *c13LoadCase) (string, []string, error) {
	base := c.Work
	if base == "" {
		base = os.TempDir()
	}
	root := filepath.Join(base, fmt.Sprintf("c13tree-%d-%d-%d-%x", lc.Dirs, lc.Files, lc.Sub, lc.Seed&0xffffff))
	c13TreeMu.Lock()
	defer c13TreeMu.Unlock()
	if fs, ok := c13Trees[root]; ok {
		return root, fs, nil
	}
	r := NewRNG(lc.Seed ^ 0x7ee)
	exts := []string{"go", "c", "txt", "md", "x", "json"}
	mk := func(dir string, n int) error {
		if err := os.MkdirAll(dir, 0755); err != nil {
			return err
		}
		for k := 0; k < n; k++ {
			if err := os.WriteFile(filepath.Join(dir, fmt.Sprintf("file%04d.%s", k, Pick(r, exts))), nil, 0644); err != nil {
				return err
			}
		}
		return nil
	}
	for d := 0; d < lc.Dirs; d++ {
		dir := filepath.Join(root, fmt.Sprintf("dir%03d", d))
		if err := mk(dir, lc.Files); err != nil {
			return "", nil, err
		}
		for s := 0; s < lc.Sub; s++ {
			if err := mk(filepath.Join(dir, fmt.Sprintf("sub%d", s)), lc.Files); err != nil {
				return "", nil, err
			}
		}
	}
	files := []string{}
	err := filepath.WalkDir(root, func(p string, d fs.DirEntry, err error) error {
		if err != nil {
			return err
		}
		if !d.IsDir() {
			rel, _ := filepath.Rel(root, p)
			files = append(files, rel)
		}
		return nil
	})
	if err != nil {
		return "", nil, err
	}
	c13Trees[root] = files
	return root, files, nil
}

func c13Walk(c *Ctx, cs c13Case) {
	lc := cs.Load
	if lc == nil || lc.Dirs <= 0 {
		return
	}
	root, files, err := c13Tree(c, lc)
	if err != nil {
		c.Rep.Count("load:tree_failed")
		return
	}
	all := make([]string, len(files))
	for i, f := range files {
		all[i] = filepath.Join(root, f)
	}
	key, _ := json.Marshal(cs)
	r := NewRNG(lc.Seed)
	iters := lc.Iters
	if iters < 1 {
		iters = 1
	}
	for it := 0; it < iters; it++ {
		var walkFailed atomic.Bool
		obs := c13LoadOnce(lc, r.Fork(), func(push func([]byte) bool) {
			w := fzf.VerifNewWalk(func(s string) { push([]byte(s)) })
			if !w.Run([]string{root}, true, false, false, false, nil) {
				walkFailed.Store(true)
			}
		})
		c13Inc(&c.Rep.ImplTraces, 1)
		c.Rep.CountN("load:snapshots", len(obs.snaps))
		if walkFailed.Load() && obs.pan == "" {
			c.Rep.Count("load:walk_reported_error")
			continue
		}
		if f := c13LoadJudge(c, lc, obs, nil, all, "(walker)"); f != nil {
			c13LoadReport(c, cs, f)
			break
		}
	}
	c.Rep.Eval(string(key), true)
	c.Rep.Count("load:walks")
}

func c13GenWalk(r *RNG) c13Case {
	sh := Pick(r, c13TreeShapes[:3])
	lc := &c13LoadCase{Dirs: sh[0], Files: sh[1], Sub: sh[2], Seed: 1, Iters: 3, Snaps: Pick(r, []int{0, 3, 10})}
	if r.Chance(1, 3) {
		lc.HLines = Pick(r, []int{1, 3, 120})
	}
	if r.Chance(1, 4) {
		lc.Tail = Pick(r, []int{100, 1000})
	}
	return c13Case{Kind: "walk", Load: lc}
}

// ---------------------------------------------------------------- L: the real fzf with its built-in walker

func c13WalkSession(c *Ctx, cs c13Case) { c13WalkSessionWith(c, cs, c.Fzf, "") }

func c13WalkSessionWith(c *Ctx, cs c13Case, fzfBin string, raceDir string) {
	lc := cs.Load
	if lc == nil || lc.Dirs <= 0 {
		return
	}
	rep := c.Rep
	root, files, err := c13Tree(c, lc)
	if err != nil {
		rep.Count("load:tree_failed")
		return
	}
	paths := make([]string, len(files))
	for i, f := range files {
		paths[i] = filepath.Join(root, f)
	}
	sort.Strings(paths)
	failed := false
	fail := func(name string, impl, expect interface{}) {
		if failed {
			return
		}
		failed = true
		c13LoadReport(c, cs, &c13LoadFail{name, fmt.Sprint(impl), fmt.Sprint(expect)})
	}
	args := append([]string{"--multi", "--walker=file", "--walker-root=" + root}, lc.Args...)
	if lc.Query0 != "" {
		args = append(args, "--query="+lc.Query0)
	}
	so := SessionOpts{Args: args, StdinTTY: true, Cols: 100, Rows: 30}
	if raceDir != "" {
		so.Env = append(so.Env, "GORACE=halt_on_error=0 exitcode=0 log_path="+filepath.Join(raceDir, "race"))
	}
	cc := *c
	cc.Fzf = fzfBin
	s, err := StartSession(&cc, so)
	c13Inc(&rep.ImplTraces, 1)
	if err != nil {
		rep.Count("load:session_start_failed")
		rep.Disagreement(Disagreement{Kind: "corr", Name: "corr:C13.walk_session_start", Input: cs, Impl: err.Error(), Expect: "fzf starts"})
		return
	}
	defer s.Close()
	key, _ := json.Marshal(cs)
	rep.Eval(string(key), true)
	deadline := 30 * time.Second
	// the sequential filter of the paths: a fresh fzf that reads them from a pipe (one pusher, nothing concurrent)
	oracle := func(q string) ([]string, bool) {
		if q == "" {
			return paths, true
		}
		fargs := []string{}
		for _, a := range lc.Args { // the options that decide what matches
			if a == "-e" || strings.HasPrefix(a, "--scheme=") || strings.HasPrefix(a, "--tiebreak=") {
				fargs = append(fargs, a)
			}
		}
		out, _, code := RunFzf(c, append(fargs, "--filter", q), []byte(strings.Join(paths, "\n")+"\n"))
		if code != 0 && code != 1 {
			return nil, false
		}
		res := strings.Split(strings.TrimSuffix(out, "\n"), "\n")
		if out == "" {
			res = []string{}
		}
		sort.Strings(res)
		return res, true
	}
	texts := func(ms []FzfItem) []string {
		out := make([]string, len(ms))
		for i, m := range ms {
			out[i] = m.Text
		}
		sort.Strings(out)
		return out
	}
	byIdx := map[int]string{}
	judge := func(st *FzfState, q string, when string) bool { // safety: what fzf reports now
		c13Inc(&rep.SpecChecks, 3)
		seen := map[int]string{}
		for _, m := range st.Matches {
			if t, ok := seen[m.Index]; ok {
				fail("item_indexes_number_positions(walker session)", fmt.Sprintf("%s: the items %q and %q both have index %d (%d items listed)", when, t, m.Text, m.Index, len(st.Matches)),
					"every item has its own index")
				return false
			}
			seen[m.Index] = m.Text
			if t, ok := byIdx[m.Index]; ok && t != m.Text {
				fail("items_never_change(walker session)", fmt.Sprintf("%s: item %d reads %q, it read %q before", when, m.Index, m.Text, t), "one index, one text")
				return false
			}
			byIdx[m.Index] = m.Text
			if m.Index < 0 || (!st.Reading && m.Index >= st.TotalCount) {
				fail("item_indexes_number_positions(walker session)", fmt.Sprintf("%s: item %q has index %d, %d items were loaded", when, m.Text, m.Index, st.TotalCount), "indexes 0..n-1")
				return false
			}
		}
		if st.MatchCount != len(st.Matches) {
			fail("counts_consistent(walker session)", fmt.Sprintf("%s: matchCount=%d, %d matches listed", when, st.MatchCount, len(st.Matches)), "equal")
			return false
		}
		return true
	}
	search := func(q string, post bool) bool { // eventually: loading over, q listed as the sequential filter says
		want, ok := oracle(q)
		if !ok {
			rep.Count("load:oracle_unavailable")
			return true
		}
		if post {
			qq := c13Quote(q)
			if qq == "" {
				return true
			}
			if err := s.Post("change-query" + qq); err != nil {
				return !errors.Is(err, ErrGone)
			}
		}
		pred := func(st *FzfState) bool {
			return st.Query == q && !st.Reading && st.TotalCount == len(paths) && st.MatchCount == len(want) && len(st.Matches) == len(want)
		}
		st, good := s.WaitFor(pred, deadline)
		for try := 0; try < 2 && !good && !s.Exited(); try++ {
			time.Sleep(200 * time.Millisecond)
			st, good = s.WaitFor(pred, deadline/3)
		}
		if s.Exited() {
			return false
		}
		if st != nil && !judge(st, q, fmt.Sprintf("with query %q", q)) {
			return false
		}
		if !good {
			got := "no answer"
			if st != nil {
				got = fmt.Sprintf("query %q reading=%v totalCount=%d matchCount=%d (%d listed)", st.Query, st.Reading, st.TotalCount, st.MatchCount, len(st.Matches))
			}
			name := "search_equals_sequential_filter(walker session)"
			if st != nil && !st.Reading && st.TotalCount != len(paths) {
				name = "loaded_equals_walked(walker session)"
			}
			fail(name, got, fmt.Sprintf("loading ends with %d items; query %q lists %d of them", len(paths), q, len(want)))
			return false
		}
		c13Inc(&rep.SpecChecks, 1)
		if got := texts(st.Matches); strings.Join(got, "\n") != strings.Join(want, "\n") {
			diff := ""
			for k := range want {
				if k >= len(got) || got[k] != want[k] {
					diff = fmt.Sprintf("first difference (sorted): want %q", want[k])
					if k < len(got) {
						diff += fmt.Sprintf(", got %q", got[k])
					}
					break
				}
			}
			fail("search_equals_sequential_filter(walker session)", fmt.Sprintf("query %q lists %d items; %s", q, len(got), diff), fmt.Sprintf("the %d paths the sequential filter lists", len(want)))
			return false
		}
		if len(want) > 0 && len(want) < len(paths) {
			rep.Count("load:session_search_nontrivial")
		}
		return true
	}
	crashed := func() bool {
		if cr := s.Crash(); cr != "" {
			fail("no_crash(walker session)", cr, "fzf keeps running")
			return true
		}
		return false
	}
	// what is on display WHILE loading must already be consistent
	if st, err := s.Get(); err == nil {
		if st.Reading {
			rep.Count("load:session_observed_while_loading")
		}
		judge(st, st.Query, "while loading")
	}
	if !failed && search(lc.Query0, false) && !crashed() && search(lc.Query, true) && !crashed() && search("", true) && !crashed() {
		if err := s.Post("select-all+accept"); err == nil || errors.Is(err, ErrGone) {
			out, code, exited := s.Wait(20 * time.Second)
			c13Inc(&rep.SpecChecks, 1)
			got := strings.Split(strings.TrimSuffix(out, "\n"), "\n")
			sort.Strings(got)
			if !exited {
				rep.Count("load:accept_timeout")
			} else if code != 0 || strings.Join(got, "\n") != strings.Join(paths, "\n") {
				diff := ""
				for k := range paths {
					if k >= len(got) || got[k] != paths[k] {
						diff = fmt.Sprintf("first difference (sorted): want %q", paths[k])
						if k < len(got) {
							diff += fmt.Sprintf(", got %q", got[k])
						}
						break
					}
				}
				fail("accepted_output_is_input(walker session)", fmt.Sprintf("exit code %d, %d lines printed after select-all+accept on %d items; %s", code, len(got), len(paths), diff),
					fmt.Sprintf("exit code 0 and the %d paths of the tree, each once", len(paths)))
			}
		}
	}
	crashed()
	rep.Count("load:walk_sessions")
	if raceDir != "" {
		s.Close()
		c13RaceReports(c, cs, raceDir)
	}
}

// a few tree shapes (directories, files per directory, sub-directories per directory), so that the streams of one run
// share their trees: 1 200, 6 000, 14 000 files; the last one (42 000) only in the thorough tier
var c13TreeShapes = [][3]int{{60, 20, 0}, {150, 40, 0}, {200, 35, 1}, {300, 70, 1}}

func c13GenWalkSession(r *RNG, thorough bool) c13Case {
	sh := Pick(r, c13TreeShapes[1:3])
	if thorough {
		sh = Pick(r, c13TreeShapes[1:])
	}
	lc := &c13LoadCase{Dirs: sh[0], Files: sh[1], Sub: sh[2], Seed: 1, Iters: 1}
	opt := func(num, den int, a ...string) {
		if r.Chance(num, den) {
			lc.Args = append(lc.Args, Pick(r, a))
		}
	}
	opt(1, 3, "--tac")
	opt(1, 3, "--no-sort")
	opt(1, 4, "--track")
	opt(1, 4, "--scheme=path", "--tiebreak=index", "-e")
	opt(1, 4, "--layout=reverse", "--height=60%")
	opt(1, 5, "--sync")
	d := fmt.Sprintf("dir%03d", r.Intn(lc.Dirs))
	f := fmt.Sprintf("file%04d", r.Intn(lc.Files))
	probes := []string{d + "/", f, d + " " + f[:7], "'" + f + " .go$", "!" + d[:5] + " " + f, f[4:] + " md$ | txt$"}
	if r.Chance(2, 3) {
		lc.Query0 = Pick(r, probes)
	}
	lc.Query = Pick(r, probes)
	return c13Case{Kind: "walksession", Load: lc}
}

// thorough tier: walker sessions against the -race build of fzf (built by c13DisplayRace)
func c13WalkSessionRace(c *Ctx, cases []c13Case) {
	bin := filepath.Join(c.Work, "fzf_race")
	if _, err := os.Stat(bin); err != nil {
		c.Rep.Count("race:walk_sessions_unavailable")
		return
	}
	for _, cs := range cases {
		dir, err := os.MkdirTemp(c.Work, "race")
		if err != nil {
			return
		}
		c13WalkSessionWith(c, cs, bin, dir)
		os.RemoveAll(dir)
		c.Rep.Count("race:walk_sessions")
	}
}
