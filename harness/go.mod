module verifharness

go 1.23

require (
	github.com/junegunn/fzf v0.0.0
	github.com/rivo/uniseg v0.4.7
	golang.org/x/sys v0.30.0
)

require (
	github.com/charlievieth/fastwalk v1.0.10 // indirect
	github.com/junegunn/go-shellwords v0.0.0-20250127100254-2aa3b3277741 // indirect
	github.com/mattn/go-isatty v0.0.20 // indirect
	golang.org/x/term v0.29.0 // indirect
)

replace github.com/junegunn/fzf => /repo
