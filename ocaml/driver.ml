(* Generic driver for the extracted model: one request per line,
     <op> <val>        val ::= int | '(' val* ')'
   answer: one line with the val printed in the same syntax.
   Only conversion OCaml int <-> extracted Z and parsing live here. *)
open Fzfmodel

let rec pos_of_int n = if n = 1 then XH else if n land 1 = 0 then XO (pos_of_int (n lsr 1)) else XI (pos_of_int (n lsr 1))
let z_of_int n = if n = 0 then Z0 else if n > 0 then Zpos (pos_of_int n) else Zneg (pos_of_int (-n))
let rec int_of_pos = function XH -> 1 | XO p -> 2 * int_of_pos p | XI p -> 2 * int_of_pos p + 1
let int_of_z = function Z0 -> 0 | Zpos p -> int_of_pos p | Zneg p -> - (int_of_pos p)

let parse (s : string) (i : int ref) : val0 =
  let n = String.length s in
  let rec skip () = while !i < n && s.[!i] = ' ' do incr i done
  and value () =
    skip ();
    if !i >= n then failwith "eof"
    else if s.[!i] = '(' then begin
      incr i;
      let acc = ref [] in
      let fin = ref false in
      while not !fin do
        skip ();
        if !i >= n then failwith "unclosed"
        else if s.[!i] = ')' then (incr i; fin := true)
        else acc := value () :: !acc
      done;
      VL (List.rev !acc)
    end else begin
      let st = !i in
      if s.[!i] = '-' then incr i;
      while !i < n && s.[!i] >= '0' && s.[!i] <= '9' do incr i done;
      if !i = st then failwith "bad token";
      VI (z_of_int (int_of_string (String.sub s st (!i - st))))
    end
  in value ()

let rec print b = function
  | VI z -> Buffer.add_string b (string_of_int (int_of_z z))
  | VL l ->
    Buffer.add_char b '(';
    List.iteri (fun k v -> if k > 0 then Buffer.add_char b ' '; print b v) l;
    Buffer.add_char b ')'

let () =
  let b = Buffer.create 65536 in
  try
    while true do
      let line = input_line stdin in
      let i = ref 0 in
      (match parse line i with
       | VI op ->
         let a = parse line i in
         Buffer.clear b;
         (try print b (dispatch op a) with Stack_overflow -> (Buffer.clear b; Buffer.add_string b "(-2)"));
         Buffer.add_char b '\n';
         print_string (Buffer.contents b)
       | VL _ -> print_string "(-3)\n");
      flush stdout
    done
  with End_of_file -> ()
